"""Abstract execution of a small function that edits one std::string, over a finite abstraction of its characters.

Each character of the tracked string is a token (name, class): class 'Z' = the digit '0', 'N' = a digit other than '0',
'O' = a character that is not a digit (sign, colon, prefix letters).  Integer locals are exact.  Because the code under
analysis only ever compares characters with '0' (anything else ends the run as "not interpreted"), one abstract run per
assignment of classes to the digit positions covers every concrete string of that shape: this is an abstract
interpretation over a finite domain, not a test of sample values.

The interpreter walks the AST structurally (compound / if / while / for / return / declarations / expression
statements) and raises NotInterpreted on anything it has no exact transfer function for, so a result is either exact
or absent.
"""
from .frontend import kids, dtype, qtype, pos
from .expr import peel, callee, call_args, Folder, wrap, expr_int_type, cdiv, cmod

NPOS = 2 ** 64 - 1


class NotInterpreted(Exception):
    pass


class _Return(Exception):
    def __init__(self, v):
        self.v = v


class _Break(Exception):
    pass


class _Continue(Exception):
    pass


class Chr(object):
    __slots__ = ('tok',)

    def __init__(self, tok):
        self.tok = tok


class StrExec(object):
    def __init__(self, unit, var_id, tokens, env=None, max_steps=400):
        self.u = unit
        self.fold = Folder(unit)
        self.var = var_id           # declaration id of the tracked string
        self.s = list(tokens)
        self.env = dict(env or {})  # decl id -> int
        self.steps = 0
        self.max_steps = max_steps

    # ------------------------------------------------------------------ statements
    def run(self, body):
        try:
            self.stmt(body)
        except _Return as r:
            return r.v
        return None

    def tick(self, x):
        self.steps += 1
        if self.steps > self.max_steps:
            raise NotInterpreted('step budget exhausted at %s' % pos(x))

    def stmt(self, x):
        self.tick(x)
        k = x.get('kind')
        if k == 'CompoundStmt':
            for c in kids(x):
                self.stmt(c)
            return
        if k == 'NullStmt':
            return
        if k == 'DeclStmt':
            for d in kids(x):
                if d.get('kind') != 'VarDecl':
                    if d.get('kind') in ('StaticAssertDecl', 'TypedefDecl', 'TypeAliasDecl', 'UsingDecl'):
                        continue
                    raise NotInterpreted('declaration %s at %s' % (d.get('kind'), pos(d)))
                if d.get('id') == self.var:
                    continue            # the tracked string: its initial value is the abstraction's input
                ks = [c for c in kids(d) if not c.get('kind', '').endswith('Attr')]
                if not ks or 'init' not in d:
                    self.env[d['id']] = None
                    continue
                v = self.ev(ks[-1])
                if not isinstance(v, int):
                    raise NotInterpreted('initialiser of %s at %s' % (d.get('name'), pos(d)))
                self.env[d['id']] = v
            return
        if k == 'IfStmt':
            ks = kids(x)
            parts = [c for c in ks]
            # clang: [init?] [condvar?] cond then [else]
            if x.get('hasInit') or x.get('hasVar'):
                raise NotInterpreted('if with init/condition variable at %s' % pos(x))
            cond, then = parts[0], parts[1]
            els = parts[2] if len(parts) > 2 else None
            if self.truth(cond):
                self.stmt(then)
            elif els is not None:
                self.stmt(els)
            return
        if k == 'WhileStmt':
            ks = kids(x)
            cond, body = ks[-2], ks[-1]
            while self.truth(cond):
                self.tick(x)
                try:
                    self.stmt(body)
                except _Break:
                    break
                except _Continue:
                    pass
            return
        if k == 'DoStmt':
            body, cond = kids(x)[0], kids(x)[1]
            while True:
                self.tick(x)
                try:
                    self.stmt(body)
                except _Break:
                    break
                except _Continue:
                    pass
                if not self.truth(cond):
                    break
            return
        if k == 'ForStmt':
            ks = x.get('inner') or []
            if len(ks) != 5:
                raise NotInterpreted('for statement at %s' % pos(x))
            init, condvar, cond, inc, body = ks
            if init and init.get('kind'):
                self.stmt(init)
            if condvar and condvar.get('kind'):
                raise NotInterpreted('for with condition variable at %s' % pos(x))
            while (not cond or not cond.get('kind')) or self.truth(cond):
                self.tick(x)
                try:
                    self.stmt(body)
                except _Break:
                    break
                except _Continue:
                    pass
                if inc and inc.get('kind'):
                    self.ev(inc)
            return
        if k == 'BreakStmt':
            raise _Break()
        if k == 'ContinueStmt':
            raise _Continue()
        if k == 'ReturnStmt':
            ks = kids(x)
            if not ks:
                raise _Return(None)
            v = self.ev(ks[0])
            raise _Return(v)
        if k in ('AttributedStmt',):
            self.stmt(kids(x)[-1])
            return
        # expression statement
        self.ev(x)

    # ------------------------------------------------------------------ expressions
    def truth(self, e):
        v = self.ev(e)
        if isinstance(v, bool):
            return v
        if isinstance(v, int):
            return v != 0
        raise NotInterpreted('condition at %s' % pos(e))

    def is_var(self, e):
        x = peel(e, explicit=False)
        while x is not None and x.get('kind') in ('MaterializeTemporaryExpr', 'CXXBindTemporaryExpr', 'ExprWithCleanups', 'ParenExpr') and kids(x):
            x = peel(kids(x)[0], explicit=False)
        return x is not None and x.get('kind') == 'DeclRefExpr' and (x.get('referencedDecl') or {}).get('id') == self.var

    def index(self, i, e, allow_end=False):
        if not isinstance(i, int) or i < 0 or i > len(self.s) or (i == len(self.s) and not allow_end):
            raise NotInterpreted('position %r outside the string of length %d at %s' % (i, len(self.s), pos(e)))
        return i

    def ev(self, e):
        self.tick(e)
        k = e.get('kind')
        c = self.fold.fold(e)
        if c is not None and k not in ('DeclRefExpr',):
            return c
        if k in ('ImplicitCastExpr', 'CXXStaticCastExpr', 'CStyleCastExpr', 'CXXFunctionalCastExpr'):
            v = self.ev(kids(e)[-1])
            it = expr_int_type(e)
            if isinstance(v, int) and not isinstance(v, bool) and it and e.get('castKind') in ('IntegralCast', None, 'NoOp'):
                return wrap(v, it)
            if isinstance(v, int) and e.get('castKind') == 'IntegralToBoolean':
                return int(v != 0)
            return v
        if k in ('ParenExpr', 'ExprWithCleanups', 'MaterializeTemporaryExpr', 'CXXBindTemporaryExpr', 'ConstantExpr'):
            return self.ev(kids(e)[0])
        if k == 'DeclRefExpr':
            did = (e.get('referencedDecl') or {}).get('id')
            if did == self.var:
                return ('str', list(self.s))
            if did in self.env:
                v = self.env[did]
                if v is None:
                    raise NotInterpreted('read of an unset local at %s' % pos(e))
                return v
            if c is not None:
                return c
            raise NotInterpreted('value of %s at %s' % (e.get('referencedDecl', {}).get('name'), pos(e)))
        if k == 'CXXConstructExpr':
            args = call_args(e)
            if len(args) == 1:
                return self.ev(args[0])     # copy / move of the string
            raise NotInterpreted('construction at %s' % pos(e))
        if k == 'ConditionalOperator':
            a, b, c_ = kids(e)
            return self.ev(b) if self.truth(a) else self.ev(c_)
        if k == 'UnaryOperator':
            op = e.get('opcode')
            sub = kids(e)[0]
            if op == '!':
                return int(not self.truth(sub))
            if op in ('++', '--'):
                did = self.local(sub)
                old = self.env[did]
                if not isinstance(old, int):
                    raise NotInterpreted('increment at %s' % pos(e))
                new = wrap(old + (1 if op == '++' else -1), expr_int_type(sub))
                self.env[did] = new
                return old if e.get('isPostfix') else new
            v = self.ev(sub)
            if isinstance(v, int):
                if op == '-':
                    return wrap(-v, expr_int_type(e))
                if op == '+':
                    return v
                if op == '~':
                    return wrap(~v, expr_int_type(e))
            raise NotInterpreted('unary %s at %s' % (op, pos(e)))
        if k in ('BinaryOperator', 'CompoundAssignOperator'):
            return self.binop(e)
        if k == 'CXXOperatorCallExpr':
            cal = callee(e)
            nm = cal[1].get('name') if cal and cal[0] == 'fn' else None
            args = call_args(e)
            if nm == 'operator[]' and self.is_var(args[0]):
                i = self.index(self.ev(args[1]), e)
                return Chr(self.s[i])
            if nm == 'operator=' and self.is_var(args[0]):
                v = self.ev(args[1])
                if isinstance(v, tuple) and v[0] == 'str':
                    self.s = list(v[1])
                    return ('str', list(self.s))
            if nm in ('operator+', 'operator-') and len(args) == 2:
                a_, b_ = self.ev(args[0]), self.ev(args[1])
                if isinstance(a_, tuple) and a_[0] == 'it' and isinstance(b_, int):
                    return ('it', a_[1] + (b_ if nm == 'operator+' else -b_))
                if isinstance(a_, tuple) and isinstance(b_, tuple) and a_[0] == b_[0] == 'it' and nm == 'operator-':
                    return a_[1] - b_[1]
            raise NotInterpreted('operator call %s at %s' % (nm, pos(e)))
        if k == 'CXXMemberCallExpr':
            return self.method(e)
        raise NotInterpreted('%s at %s' % (k, pos(e)))

    def local(self, e):
        x = peel(e, explicit=False)
        did = (x.get('referencedDecl') or {}).get('id') if x.get('kind') == 'DeclRefExpr' else None
        if did is None or did not in self.env:
            raise NotInterpreted('assignment target at %s' % pos(e))
        return did

    def binop(self, e):
        op = e.get('opcode')
        a, b = kids(e)
        if op == '&&':
            return int(self.truth(a) and self.truth(b))
        if op == '||':
            return int(self.truth(a) or self.truth(b))
        if op == ',':
            self.ev(a)
            return self.ev(b)
        if op == '=':
            did = self.local(a)
            v = self.ev(b)
            if not isinstance(v, int):
                raise NotInterpreted('assignment at %s' % pos(e))
            self.env[did] = v
            return v
        if e.get('kind') == 'CompoundAssignOperator':
            did = self.local(a)
            v = self.arith(op[:-1], self.env[did], self.ev(b), e, expr_int_type(a))
            self.env[did] = v
            return v
        va, vb = self.ev(a), self.ev(b)
        if isinstance(va, Chr) or isinstance(vb, Chr):
            return self.chrcmp(op, va, vb, e)
        return self.arith(op, va, vb, e, expr_int_type(e))

    def arith(self, op, va, vb, e, it):
        if not isinstance(va, int) or not isinstance(vb, int):
            raise NotInterpreted('operands of %s at %s' % (op, pos(e)))
        if op in ('<', '<=', '>', '>=', '==', '!='):
            return int({'<': va < vb, '<=': va <= vb, '>': va > vb, '>=': va >= vb, '==': va == vb, '!=': va != vb}[op])
        if op in ('/', '%') and vb == 0:
            raise NotInterpreted('division by zero at %s' % pos(e))
        r = {'+': lambda: va + vb, '-': lambda: va - vb, '*': lambda: va * vb, '/': lambda: cdiv(va, vb),
             '%': lambda: cmod(va, vb)}.get(op)
        if r is None:
            raise NotInterpreted('operator %s at %s' % (op, pos(e)))
        return wrap(r(), it) if it else r()

    def chrcmp(self, op, va, vb, e):
        if isinstance(va, Chr) and isinstance(vb, Chr):
            if va.tok is vb.tok or va.tok == vb.tok:
                return int(op in ('==', '<=', '>='))
            raise NotInterpreted('comparison of two characters at %s' % pos(e))
        if isinstance(vb, Chr):
            va, vb = vb, va
            op = {'<': '>', '>': '<', '<=': '>=', '>=': '<='}.get(op, op)
        if not isinstance(vb, int):
            raise NotInterpreted('character compared with a non-constant at %s' % pos(e))
        cls = va.tok[1]
        lit = va.tok[2] if len(va.tok) > 2 else None
        if lit is not None:
            cv = ord(lit)
            return int({'<': cv < vb, '<=': cv <= vb, '>': cv > vb, '>=': cv >= vb, '==': cv == vb, '!=': cv != vb}[op])
        digit_lit = 48 <= vb <= 57
        if cls == 'Z':
            cv = 48
            return int({'<': cv < vb, '<=': cv <= vb, '>': cv > vb, '>=': cv >= vb, '==': cv == vb, '!=': cv != vb}[op])
        if cls == 'N':
            if vb == 48:
                return int(op in ('>', '>=', '!='))
            if not digit_lit:
                if op in ('==', '!='):
                    return int(op == '!=')
                if vb < 48:
                    return int(op in ('>', '>='))
                if vb > 57:
                    return int(op in ('<', '<='))
            raise NotInterpreted('a non-zero digit compared with %r at %s' % (chr(vb), pos(e)))
        if cls == 'O':
            if digit_lit and op in ('==', '!='):
                return int(op == '!=')
            raise NotInterpreted('a non-digit character compared with %r at %s' % (chr(vb), pos(e)))
        raise NotInterpreted('character class at %s' % pos(e))

    def tok_eq(self, tok, code, e):
        """Is the character of this token equal to the literal code?  Exact or NotInterpreted."""
        r = self.chrcmp('==', Chr(tok), code, e)
        return bool(r)

    def is_zero(self, tok):
        if len(tok) > 2 and tok[2] is not None:
            return tok[2] == '0'
        return tok[1] == 'Z'

    def method(self, e):
        cal = callee(e)
        if not cal or cal[0] != 'method' or cal[2] is None or not self.is_var(cal[2]):
            raise NotInterpreted('call at %s' % pos(e))
        nm = cal[1]
        n = len(self.s)
        raw = call_args(e)
        if nm == 'erase' and len(raw) == 2:
            # the erase-remove idiom: s.erase(std::remove(s.begin(), s.end(), c), s.end())
            r0 = peel(raw[0], explicit=False)
            while r0.get('kind') in ('MaterializeTemporaryExpr', 'CXXBindTemporaryExpr', 'CXXConstructExpr', 'ExprWithCleanups') and len(kids(r0)) == 1:
                r0 = peel(kids(r0)[0], explicit=False)
            if r0.get('kind') == 'CallExpr' and callee(r0) and callee(r0)[0] == 'fn' and callee(r0)[1].get('name') == 'remove' \
                    and len(call_args(r0)) == 3:
                b_, e_, c_ = [self.ev(a) for a in call_args(r0)]
                end2 = self.ev(raw[1])
                if b_ == ('it', 0) and e_ == ('it', n) and end2 == ('it', n) and isinstance(c_, int):
                    keep = [t for t in self.s if not self.tok_eq(t, c_, e)]
                    self.s = keep
                    return ('it', len(keep))
                raise NotInterpreted('std::remove over part of the string at %s' % pos(e))
        args = [self.ev(a) for a in raw]
        if nm in ('begin', 'cbegin'):
            return ('it', 0)
        if nm in ('end', 'cend'):
            return ('it', n)
        if nm in ('size', 'length'):
            return n
        if nm == 'empty':
            return int(n == 0)
        if nm == 'erase':
            if not args:
                self.s = []
                return ('str', [])
            if all(isinstance(a, tuple) and a[0] == 'it' for a in args):
                p = self.index(args[0][1], e, allow_end=True)
                q = self.index(args[1][1], e, allow_end=True) if len(args) > 1 else p + 1
                if q < p or q > n:
                    raise NotInterpreted('iterator range at %s' % pos(e))
                self.s = self.s[:p] + self.s[q:]
                return ('it', p)
            if not all(isinstance(a, int) for a in args):
                raise NotInterpreted('erase with mixed arguments at %s' % pos(e))
            p = self.index(args[0], e, allow_end=True)
            cnt = args[1] if len(args) > 1 else NPOS
            cnt = min(cnt, n - p)
            self.s = self.s[:p] + self.s[p + cnt:]
            return ('str', list(self.s))
        if nm == 'resize' and len(args) == 1 and isinstance(args[0], int) and args[0] <= n:
            self.s = self.s[:args[0]]
            return None
        if nm == 'pop_back' and n:
            self.s.pop()
            return None
        if nm in ('back', 'front') and n:
            return Chr(self.s[-1] if nm == 'back' else self.s[0])
        if nm == 'at' and len(args) == 1:
            return Chr(self.s[self.index(args[0], e)])
        if nm == 'substr':
            p = self.index(args[0] if args else 0, e, allow_end=True)
            cnt = min(args[1] if len(args) > 1 else NPOS, n - p)
            return ('str', self.s[p:p + cnt])
        if nm in ('find_last_not_of', 'find_last_of', 'find_first_not_of', 'find_first_of', 'find', 'rfind') and args and args[0] == 48 \
                and len(args) <= 2:
            want_zero = nm in ('find_last_of', 'find_first_of', 'find', 'rfind')
            backwards = nm in ('find_last_not_of', 'find_last_of', 'rfind')
            if backwards:
                start = min(args[1] if len(args) > 1 else NPOS, n - 1)
                rng = range(start, -1, -1) if n else []
            else:
                start = args[1] if len(args) > 1 else 0
                rng = range(start, n)
            for i in rng:
                if self.is_zero(self.s[i]) == want_zero:
                    return i
            return NPOS
        raise NotInterpreted('std::string::%s at %s' % (nm, pos(e)))
