"""RANGE / DA / BUDGET engine: an abstract interpreter over the JSON AST.

Domain
  Int(lo, hi)                       integer interval (python ints, +-INF)
  Ptr(null, target, off)            null in {'N','NN','M'}; target = memory location of
                                    the pointed-to object (array or scalar) or None
                                    (unknown memory); off = Int element offset
  UNINIT                            never assigned (definite-assignment tracking)
  TOP                               anything
Memory is a map from access paths (root declaration id, field, field, ...) to
values; structs are flat sets of paths.  States are partitioned by the nullness
of pointer variables and by the value of designated discriminant fields, so
"returned non-null => field assigned" correlations survive joins.  Calls to
functions defined in /repo are analysed by abstract inlining in the caller's
context; loops by Kleene iteration with threshold widening.  Nothing here runs
cctz code: the interpreter walks the type-checked AST over abstract values."""
import re
from .frontend import kids, walk, qn, qtype, dtype, pos, AnalysisBroken, body_of, params_of, ancestors
from .expr import (peel, callee, call_args, Folder, int_type, type_range, cdiv, cmod, split_params,
                   CAST_KINDS, EXPL_CASTS)
from .cfg import CFG
from .table import table_of

INF = float('inf')


class Int(object):
    __slots__ = ('lo', 'hi')

    def __init__(self, lo, hi):
        self.lo, self.hi = lo, hi

    def __repr__(self):
        return '[%s,%s]' % (self.lo, self.hi)

    def __eq__(self, o):
        return isinstance(o, Int) and self.lo == o.lo and self.hi == o.hi

    def __hash__(self):
        return hash((self.lo, self.hi))

    def const(self):
        return self.lo if self.lo == self.hi else None

    def join(self, o):
        return Int(min(self.lo, o.lo), max(self.hi, o.hi))

    def meet(self, o):
        lo, hi = max(self.lo, o.lo), min(self.hi, o.hi)
        return Int(lo, hi) if lo <= hi else None

    def within(self, lo, hi):
        return self.lo >= lo and self.hi <= hi


def I(v):
    return Int(v, v)


class Ptr(object):
    __slots__ = ('null', 'target', 'off')

    def __init__(self, null, target=None, off=None):
        self.null, self.target, self.off = null, target, off

    def __repr__(self):
        return 'Ptr(%s,%s,%s)' % (self.null, self.target, self.off)

    def __eq__(self, o):
        return isinstance(o, Ptr) and (self.null, self.target, self.off) == (o.null, o.target, o.off)

    def __hash__(self):
        return hash((self.null, self.target))


class _Tag(object):
    def __init__(self, n):
        self.n = n

    def __repr__(self):
        return self.n


UNINIT = _Tag('UNINIT')
TOP = _Tag('TOP')
NULLP = Ptr('N')


class StructV(object):
    """An rvalue of record type whose fields live in memory under `loc`."""
    __slots__ = ('loc',)

    def __init__(self, loc):
        self.loc = loc

    def __repr__(self):
        return 'Struct%s' % (self.loc,)


def vjoin(a, b):
    if a is b:
        return a
    if a is None:
        return b
    if b is None:
        return a
    if a is UNINIT or b is UNINIT:
        return UNINIT if (a is UNINIT and b is UNINIT) else MAYBE_UNINIT
    if a is MAYBE_UNINIT or b is MAYBE_UNINIT:
        return MAYBE_UNINIT
    if isinstance(a, Int) and isinstance(b, Int):
        return a.join(b)
    if isinstance(a, Ptr) and isinstance(b, Ptr):
        null = a.null if a.null == b.null else 'M'
        if a.null == 'N':
            return Ptr(null, b.target, b.off)
        if b.null == 'N':
            return Ptr(null, a.target, a.off)
        if a.target == b.target and a.target is not None and a.off is not None and b.off is not None:
            return Ptr(null, a.target, a.off.join(b.off))
        return Ptr(null, None, None)
    if isinstance(a, StructV) and isinstance(b, StructV) and a.loc == b.loc:
        return a
    return TOP


MAYBE_UNINIT = _Tag('MAYBE_UNINIT')


class St(object):
    """One abstract state."""
    __slots__ = ('mem', 'refs', 'rel')

    def __init__(self, mem=None, refs=None, rel=None):
        self.mem = mem if mem is not None else {}
        self.refs = refs if refs is not None else {}
        self.rel = rel if rel is not None else {}

    def copy(self):
        return St(dict(self.mem), dict(self.refs), dict(self.rel))

    def join(self, o):
        m = {}
        for k in set(self.mem) | set(o.mem):
            if k in self.mem and k in o.mem:
                m[k] = vjoin(self.mem[k], o.mem[k])
            else:
                m[k] = self.mem.get(k, o.mem.get(k))
        r = dict(self.refs)
        r.update(o.refs)
        rel = {k: min(v, o.rel[k]) for k, v in self.rel.items() if k in o.rel}
        return St(m, r, rel)

    def same(self, o):
        return self.mem == o.mem and self.rel == o.rel

    def kill_rel(self, loc):
        if self.rel:
            self.rel = {k: v for k, v in self.rel.items() if loc not in k}

    def set(self, loc, v):
        self.mem[loc] = v
        self.kill_rel(loc)

    def copy_struct(self, src, dst):
        n = len(src)
        for k in [k for k in self.mem if k[:len(dst)] == dst and len(k) > len(dst)]:
            del self.mem[k]
        for k, v in list(self.mem.items()):
            if k[:n] == src and len(k) > n:
                self.mem[dst + k[n:]] = v

    def havoc(self, loc, sure=False):
        """Unknown code may have written the object at loc.  Fields that were never
        assigned stay possibly-unassigned (a callee we did not look into may or may
        not assign them); with sure=True the object itself counts as written."""
        for k in [k for k in self.mem if k[:len(loc)] == loc]:
            v = self.mem[k]
            self.mem[k] = MAYBE_UNINIT if (v is UNINIT or v is MAYBE_UNINIT) and not (sure and k == loc) else TOP
        if loc not in self.mem or sure:
            self.mem[loc] = TOP
        self.kill_rel(loc)


class Observer(object):
    """Rule hooks; all no-ops by default."""

    def subscript(self, ai, e, extent, idx, st):
        pass

    def store(self, ai, e, ptr, extent, st):
        pass

    def load(self, ai, e, ptr, extent, st):
        pass

    def narrowing(self, ai, e, val, it, explicit, st):
        pass

    def uninit_read(self, ai, e, loc, maybe, st):
        pass

    def call(self, ai, site, fkey, args, st):
        pass

    def construct(self, ai, site, cls, argvals, st):
        pass

    def overflow(self, ai, e, val, it, st):
        pass

    def returned(self, ai, site, fkey, val, st):
        pass


class AI(object):
    def __init__(self, graph, observer=None, partition=None, max_parts=48, max_depth=12, uninit_locals=True,
                 inline=None, ptr_partition=True, unroll=None, unroll_cap=48, assume_returns=None,
                 assume_member=None, method_model=None, loop_once=None, assume_loc=None, pure_memo=False, auto_unroll=False, value_numbers=False):
        self.pure_memo = pure_memo
        self.auto_unroll = auto_unroll
        self.value_numbers = value_numbers
        self.G = graph
        self.obs = observer or Observer()
        self.partition = partition or (lambda loc, v: None)
        self.max_parts = max_parts
        self.max_depth = max_depth
        self.uninit_locals = uninit_locals
        self._cfg = {}
        self._fold = {}
        self._thr = {}
        self.depth = 0
        self.stats = dict(steps=0, calls=0, widenings=0)
        self.stack = []
        self.extern_model = {}
        self.inline = inline or (lambda fkey: True)
        self.ptr_partition = ptr_partition
        self.unroll = unroll or (lambda f: False)
        self.unroll_cap = unroll_cap
        self.assume_returns = assume_returns or {}
        self.assume_member = assume_member or (lambda e: None)
        self.method_model = method_model or {}
        self.loop_once = loop_once or (lambda loop_ast: False)
        self.assume_loc = assume_loc

    # ------------------------------------------------------------------ helpers
    def cfg(self, f):
        if id(f) not in self._cfg:
            self._cfg[id(f)] = CFG(f, value_control=False)
        return self._cfg[id(f)]

    def folder(self, u):
        if id(u) not in self._fold:
            self._fold[id(u)] = Folder(u)
        return self._fold[id(u)]

    def thresholds(self, f):
        if id(f) not in self._thr:
            fo = self.folder(f['_u'])
            s = set([0, 1, -1])
            for x in walk(f):
                if x.get('kind') in ('IntegerLiteral', 'CharacterLiteral'):
                    try:
                        v = int(x['value'])
                        s.update((v, v - 1, v + 1, -v))
                    except Exception:
                        pass
            for bits in (8, 16, 32, 64):
                s.update((-(1 << (bits - 1)), (1 << (bits - 1)) - 1, (1 << bits) - 1))
            self._thr[id(f)] = sorted(s)
        return self._thr[id(f)]

    def top_of(self, t):
        r = type_range(t)
        if r:
            return Int(r[0], r[1])
        t = (t or '').strip()
        if t.endswith('*') or t.endswith('* const') or t.endswith('*const'):
            return Ptr('M', None, None)
        return TOP

    def pkey(self, st):
        key = []
        for loc, v in st.mem.items():
            if loc[0] == 'iter':
                key.append((loc, v.const() if isinstance(v, Int) else None))
                continue
            t = self.partition(loc, v)
            if t is not None:
                key.append((loc, t))
            elif loc in getattr(self, 'pred_locs', ()) and isinstance(v, Int) and v.const() is not None:
                key.append((loc, v.const()))
            elif self.ptr_partition and isinstance(v, Ptr) and v.null in ('N', 'NN') and len(loc) == 1:
                key.append((loc, v.null))
        key.sort(key=repr)
        return tuple(key)

    def pjoin(self, pset, st):
        k = self.pkey(st)
        if k in pset:
            j = pset[k].join(st)
            if j.same(pset[k]):
                return False
            pset[k] = j
            return True
        pset[k] = st
        if len(pset) > self.max_parts:
            allst = list(pset.values())
            j = allst[0]
            for s in allst[1:]:
                j = j.join(s)
            pset.clear()
            pset[('merged',)] = j
        return True

    # ------------------------------------------------------------------ function analysis
    def analyse(self, fkey, st, bind=None, this_loc=None, site=None):
        """Run function fkey from entry state st (parameters already bound).
        Returns [(return value, state)]."""
        u, f = self.G.defs[fkey]
        if self.depth >= self.max_depth or fkey in self.stack:
            return None
        self.depth += 1
        self.stack.append(fkey)
        try:
            g = self.cfg(f)
            thr = self.thresholds(f)
            ins = {g.entry.id: {self.pkey(st): st}}
            visits = {}
            exits = []
            order = {n.id: i for i, n in enumerate(g.rpo())}
            import heapq
            heap = [(0, g.entry.id)]
            inheap = {g.entry.id}
            byid = {n.id: n for n in g.live}
            rets = {}
            while heap:
                _, nid = heapq.heappop(heap)
                inheap.discard(nid)
                n = byid[nid]
                self.stats['steps'] += 1
                if self.stats['steps'] > getattr(self, 'step_budget', 400000):
                    raise AnalysisBroken('abstract interpretation exceeded its step budget in %s' % qn(f))
                pset = ins.get(nid, {})
                outs = []       # (succ node, state)
                for st0 in list(pset.values()):
                    for (m, s2) in self.transfer(u, f, g, n, st0.copy(), rets):
                        outs.append((m, s2))
                for (m, s2) in outs:
                    if m.kind == 'loop' and self.loop_once(m.ast) and order.get(nid, 0) >= order.get(m.id, 0):
                        continue        # back edge of a loop analysed once from a havocked state
                    tgt = ins.setdefault(m.id, {})
                    if m.kind == 'loop':
                        visits[m.id] = visits.get(m.id, 0) + 1
                        itv = s2.mem.get(('iter', id(m.ast)))
                        unrolling = self._unrolled(f, m.ast) and isinstance(itv, Int) and itv.const() is not None and \
                            itv.const() < self._unroll_cap(f, m.ast) - 1
                        if visits[m.id] > 6 and not unrolling:
                            s2 = self.widen(tgt, s2, thr)
                    if self.pjoin(tgt, s2):
                        if m.id not in inheap and m.id in order:
                            inheap.add(m.id)
                            heapq.heappush(heap, (order[m.id], m.id))
            out = []
            for rid, lst in rets.items():
                for (v, s) in lst.values():
                    out.append((v, s))
            # fall off the end (void functions)
            for s in ins.get(g.exit.id, {}).values():
                if not rets:
                    out.append((None, s))
            if not rets and not out:
                out = []
            return out
        finally:
            self.stack.pop()
            self.depth -= 1

    def widen(self, tgt, s2, thr):
        k = self.pkey(s2)
        old = tgt.get(k)
        if old is None:
            return s2
        self.stats['widenings'] += 1
        s3 = s2.copy()
        for loc, v in s2.mem.items():
            o = old.mem.get(loc)
            if isinstance(v, Int) and isinstance(o, Int):
                lo, hi = min(v.lo, o.lo), max(v.hi, o.hi)
                if lo < o.lo:
                    c = [t for t in thr if t <= lo]
                    lo = c[-1] if c else -INF
                if hi > o.hi:
                    c = [t for t in thr if t >= hi]
                    hi = c[0] if c else INF
                s3.mem[loc] = Int(lo, hi)
            elif isinstance(v, Ptr) and isinstance(o, Ptr) and v.off is not None and o.off is not None \
                    and v.target == o.target:
                lo, hi = min(v.off.lo, o.off.lo), max(v.off.hi, o.off.hi)
                if lo < o.off.lo:
                    c = [t for t in thr if t <= lo]
                    lo = c[-1] if c else -INF
                if hi > o.off.hi:
                    c = [t for t in thr if t >= hi]
                    hi = c[0] if c else INF
                s3.mem[loc] = Ptr(v.null if v.null == o.null else 'M', v.target, Int(lo, hi))
        return s3

    # ------------------------------------------------------------------ transfer
    def transfer(self, u, f, g, n, st, rets):
        k = n.kind
        if k == 'loop' and self.loop_once(n.ast):
            # sound for safety obligations inside the body: every variable the loop writes is unknown
            from .expr import written_lvalues
            for x in walk(n.ast):
                if x.get('kind') in ('BinaryOperator', 'CompoundAssignOperator', 'UnaryOperator', 'CallExpr',
                                     'CXXMemberCallExpr', 'CXXOperatorCallExpr', 'CXXConstructExpr'):
                    for lv in written_lvalues(x):
                        for (l, s_) in self.lval(lv, st.copy(), u):
                            if l is not None and l[0] != 'tmp':
                                root = (l[0],)
                                d_ = u.by_id.get(l[0]) if isinstance(l[0], str) else None
                                if d_ is not None and d_.get('kind') == 'VarDecl' and re.search(r'\[\d+\]', dtype(d_) or ''):
                                    continue      # array objects keep their identity; contents are not tracked
                                for kk in [kk for kk in st.mem if kk[:len(l)] == l]:
                                    t_ = dtype(u.by_id[l[0]]) if isinstance(l[0], str) and l[0] in u.by_id and len(kk) == 1 else None
                                    av_ = self.assume_loc(kk) if self.assume_loc else None
                                    st.mem[kk] = av_ if av_ is not None else (self.top_of(t_) if t_ else TOP)
            return [(m, st) for (m, _) in n.succs]
        if self.auto_unroll and not self.unroll(f):
            # partitions by iteration count live only inside their (small counted) loop
            for k_ in [k_ for k_ in st.mem if k_[0] == 'iter']:
                ln = self._loop_nodes(g, f).get(k_[1])
                if ln is not None and n.id not in ln:
                    del st.mem[k_]
        if k == 'loop' and self._unrolled(f, n.ast):
            loc = ('iter', id(n.ast))
            cur = st.mem.get(loc)
            c = cur.const() if isinstance(cur, Int) else None
            st.mem[loc] = I(min((c if c is not None else -1) + 1, self._unroll_cap(f, n.ast)))
            return [(m, st) for (m, _) in n.succs]
        if k in ('entry', 'join', 'loop', 'exit'):
            return [(m, st) for (m, _) in n.succs]
        if k == 'stmt':
            a = n.ast
            ak = a.get('kind')
            if ak == 'ReturnStmt':
                ks = kids(a)
                outs = self.eval(ks[0], st, u) if ks else [(None, st)]
                for (v, s) in outs:
                    v2 = self._ret_value(a, v, s, u, f)
                    d = rets.setdefault(id(a), {})
                    key = (self.pkey(s), self._vkey(v2))
                    if key in d:
                        d[key] = (vjoin(d[key][0], v2) if not isinstance(v2, StructV) else v2, d[key][1].join(s))
                    else:
                        d[key] = (v2, s)
                return []
            if ak in ('BreakStmt', 'ContinueStmt', 'NullStmt'):
                return [(m, st) for (m, _) in n.succs]
            if ak == 'VarDecl':
                sts = self.decl(a, st, u)
            elif ak == 'CXXCtorInitializer':
                sts = self.ctor_init(a, st, u, f)
            else:
                sts = [s for (_, s) in self.eval(a, st, u)]
            for s in sts:
                self._drop_temps(s)
            return [(m, s.copy() if i else s) for s in sts for i, (m, _) in enumerate(n.succs)]
        if k == 'cond':
            if n.info == 'range-for':
                return [(m, st.copy()) for (m, _) in n.succs]
            outs = []
            a = n.ast
            if a.get('kind') == 'VarDecl':
                # condition variable, already declared by the preceding stmt node
                loc = (a['id'],)
                for truth, lab in ((True, 'T'), (False, 'F')):
                    for s in self.refine_value(loc, st.mem.get(loc, TOP), st.copy(), truth, dtype(a)):
                        outs += [(m, s) for (m, l) in n.succs if l == lab]
                return outs
            for truth, lab in ((True, 'T'), (False, 'F')):
                tg = [m for (m, l) in n.succs if l == lab]
                if not tg:
                    continue
                for s in self.refine(a, st.copy(), truth, u):
                    for m in tg:
                        outs.append((m, s))
            return outs
        if k == 'switch':
            outs = []
            res = self.eval(n.ast, st, u)
            for (v, s) in res:
                loc = self._simple_loc(n.ast, s, u)
                seen_vals = []
                for (m, lab) in n.succs:
                    if isinstance(lab, tuple):
                        c = self.folder(u).fold(lab[1])
                        if c is None or not isinstance(v, Int):
                            outs.append((m, s.copy()))
                            continue
                        seen_vals.append(c)
                        if v.lo <= c <= v.hi:
                            s2 = s.copy()
                            if loc is not None:
                                s2.set(loc, I(c))
                            outs.append((m, s2))
                    else:
                        # default / nomatch: feasible unless the value is pinned to a case
                        if isinstance(v, Int) and v.const() is not None and v.const() in seen_vals:
                            continue
                        outs.append((m, s.copy()))
            return outs
        return [(m, st) for (m, _) in n.succs]

    def _rematerialise(self, s, loc):
        if self.assume_loc is None:
            return
        for kk in [kk for kk in s.mem if kk[:len(loc)] == loc]:
            if s.mem[kk] is TOP:
                av_ = self.assume_loc(kk)
                if av_ is not None:
                    s.mem[kk] = av_

    def _drop_temps(self, s):
        # temporaries of the activation that just finished a full statement (outer
        # activations may still be in the middle of an expression)
        dead = [k for k in s.mem if k[0] == 'tmp' and len(k) > 2 and k[2] >= self.depth]
        for k in dead:
            del s.mem[k]

    def _vkey(self, v):
        if isinstance(v, Ptr):
            return ('p', v.null)
        if isinstance(v, Int) and v.const() is not None and 0 <= v.lo <= 1:
            return ('i', v.lo)
        return None

    def _ret_value(self, ret, v, s, u, f):
        t = qtype(f).split('(')[0].strip()
        if isinstance(v, StructV):
            tmp = ('ret', id(f))
            s.copy_struct(v.loc, tmp)
            return StructV(tmp)
        return v

    # ------------------------------------------------------------------ declarations
    def decl(self, d, st, u):
        loc = (d['id'],)
        t = qtype(d).rstrip()
        ini = [c for c in kids(d) if not c.get('kind', '').endswith('Attr')]
        isref = t.endswith('&') and not t.endswith('&&')
        if d.get('storageClass') == 'static' and not self._is_scalar(d):
            return [st]
        if 'init' not in d or not ini:
            if self.uninit_locals:
                self._mark_uninit(d, loc, st, u)
            return [st]
        init = ini[-1]
        if isref or t.endswith('&&'):
            out = []
            for (l, s) in self.lval(init, st, u):
                if l is not None:
                    s.refs[d['id']] = l
                else:
                    s.refs.pop(d['id'], None)
                    s.mem[loc] = TOP
                out.append(s)
            return out
        out = []
        m_arr = re.match(r'^(?:const )?(?:unsigned |signed )?(?:char|short|int|long|long long)\s*\[(\d+)\]$', (dtype(d) or '').strip())
        pinit = peel(init, explicit=False)
        if m_arr and pinit is not None and pinit.get('kind') == 'InitListExpr' and int(m_arr.group(1)) <= 16 and \
                d.get('storageClass') != 'static':
            # a small local array of integers with a brace initialiser: element i is given, the rest are zero
            n_ = int(m_arr.group(1))
            elems = [c for c in kids(pinit) if c.get('kind') != 'ImplicitValueInitExpr'] if not pinit.get('array_filler') else \
                [c for c in kids(pinit)[1:]]
            cur = [st]
            et = re.sub(r'\s*\[\d+\]$', '', (dtype(d) or '').strip())
            for i_ in range(n_):
                nxt = []
                for s_ in cur:
                    if i_ < len(elems) and elems[i_].get('kind') not in ('ImplicitValueInitExpr',):
                        for (v_, s2) in self.eval(elems[i_], s_, u):
                            self.assign(loc + ('[%d]' % i_,), v_, s2, et, elems[i_], u)
                            nxt.append(s2)
                    else:
                        s_.mem[loc + ('[%d]' % i_,)] = I(0)
                        nxt.append(s_)
                cur = nxt
            return cur
        if dtype(d) in ('bool', 'const bool') and self._is_predicate(init):
            # a named test: keep the local correlated with the operands it was computed from
            if not hasattr(self, 'pred_locs'):
                self.pred_locs = set()
            self.pred_locs.add(loc)
            for truth in (True, False):
                for s in self.refine(init, st.copy(), truth, u):
                    s.mem[loc] = I(1 if truth else 0)
                    out.append(s)
            if out:
                return out
        for (v, s) in self.eval(init, st, u):
            self.assign(loc, v, s, dtype(d), init, u)
            if self.value_numbers and isinstance(v, Ptr):
                self._vn_copy(s, loc, init, u, d)
            self._note_quotient(loc, init, s, u)
            out.append(s)
        return out

    # -- `const int q = x / c;` : remembered (until x or q is assigned) so that  x - q * c  is read as  x % c
    def _note_quotient(self, loc, init, s, u):
        x = peel(init)
        if x is None or x.get('kind') != 'BinaryOperator' or x.get('opcode') != '/':
            return
        a, b = kids(x)
        c = self.folder(u).fold(b)
        pa = peel(a)
        if c is None or c <= 0 or pa is None or pa.get('kind') != 'DeclRefExpr' or not int_type(dtype(pa) or ''):
            return
        r = self.lval(pa, s.copy(), u)
        if len(r) == 1 and r[0][0] is not None and len(r[0][0]) == 1:
            s.rel[('quot', loc, r[0][0], c)] = 1

    def _quotient_remainder(self, a, b, va, s, u):
        """a - b where b is q * c (or c * q, or (x / c) * c) and q is known to hold x / c for the very x that a names: x % c."""
        pa, pb = peel(a), peel(b)
        if pa is None or pb is None or pa.get('kind') != 'DeclRefExpr' or pb.get('kind') != 'BinaryOperator' or pb.get('opcode') != '*' \
                or not isinstance(va, Int):
            return None
        ra = self.lval(pa, s.copy(), u)
        if len(ra) != 1 or ra[0][0] is None:
            return None
        xl = ra[0][0]
        for (q, cexp) in ((kids(pb)[0], kids(pb)[1]), (kids(pb)[1], kids(pb)[0])):
            c = self.folder(u).fold(cexp)
            pq = peel(q)
            if c is None or c <= 0 or pq is None:
                continue
            if pq.get('kind') == 'DeclRefExpr':
                rq = self.lval(pq, s.copy(), u)
                if len(rq) == 1 and rq[0][0] is not None and s.rel.get(('quot', rq[0][0], xl, c)) == 1:
                    return self.mod(va, I(c))
            if pq.get('kind') == 'BinaryOperator' and pq.get('opcode') == '/' and self.folder(u).fold(kids(pq)[1]) == c:
                px = peel(kids(pq)[0])
                if px is not None and px.get('kind') == 'DeclRefExpr':
                    rx = self.lval(px, s.copy(), u)
                    if len(rx) == 1 and rx[0][0] == xl:
                        return self.mod(va, I(c))
        return None

    def _is_predicate(self, e):
        x = peel(e)
        if x is None:
            return False
        k = x.get('kind')
        if any(y.get('kind') in ('CallExpr', 'CXXMemberCallExpr', 'CXXOperatorCallExpr', 'CompoundAssignOperator', 'CXXConstructExpr') or
               (y.get('kind') == 'UnaryOperator' and y.get('opcode') in ('++', '--')) or
               (y.get('kind') == 'BinaryOperator' and y.get('opcode') == '=') for y in walk(x)):
            return False
        if k == 'BinaryOperator' and x.get('opcode') in ('<', '<=', '>', '>=', '==', '!=', '&&', '||'):
            return True
        if k == 'UnaryOperator' and x.get('opcode') == '!':
            return True
        return False

    def _is_scalar(self, d):
        t = dtype(d)
        return bool(int_type(t)) or t.rstrip().endswith('*')

    def _mark_uninit(self, d, loc, st, u):
        t = (dtype(d) or qtype(d)).replace('const ', '').strip()
        if int_type(t) or t.endswith('*'):
            st.mem[loc] = UNINIT
            return
        if re.search(r'\[\d*\]$', t):
            return
        rec = self._record(u, t)
        if rec is not None and not self._has_user_ctor(rec):
            self._uninit_record(rec, loc, st, u)

    def _uninit_record(self, rec, loc, st, u, depth=0):
        if depth > 4:
            return
        for c in kids(rec):
            k = c.get('kind')
            if k == 'FieldDecl':
                ft = (dtype(c) or qtype(c)).replace('const ', '').strip()
                if c.get('name') is None:
                    continue
                if int_type(ft) or ft.endswith('*') or self._is_enum(u, ft):
                    if not self._has_default_init(c):
                        st.mem[loc + (c['name'],)] = UNINIT
                else:
                    r2 = self._record(u, ft)
                    if r2 is not None and not self._has_user_ctor(r2):
                        self._uninit_record(r2, loc + (c['name'],), st, u, depth + 1)
            elif k == 'CXXRecordDecl' and c.get('tagUsed') == 'union' and not c.get('name'):
                # anonymous union: members are fields of the enclosing record
                for m in kids(c):
                    if m.get('kind') == 'FieldDecl' and m.get('name'):
                        r2 = self._record(u, (dtype(m) or qtype(m)).replace('const ', '').strip())
                        if r2 is not None:
                            self._uninit_record(r2, loc + (m['name'],), st, u, depth + 1)

    def _has_default_init(self, fd):
        return any(c.get('kind') not in (None,) and not c.get('kind', '').endswith('Attr') for c in kids(fd))

    def _is_enum(self, u, t):
        t = t.replace('enum ', '').strip()
        for d in u.by_id.values():
            if d.get('kind') == 'EnumDecl' and (qn(d) == t or d.get('name') == t or qn(d).endswith('::' + t) or t.endswith('::' + (d.get('name') or '\0'))):
                return True
        return False

    def _record(self, u, t):
        t = t.replace('struct ', '').replace('class ', '').replace('const ', '').strip()
        if not hasattr(u, '_recs'):
            u._recs = {}
            for d in u.by_id.values():
                if d.get('kind') == 'CXXRecordDecl' and d.get('completeDefinition') and d.get('name'):
                    u._recs.setdefault(qn(d), d)
        if t in u._recs:
            return u._recs[t]
        for q, d in u._recs.items():
            if q.endswith('::' + t) or t.endswith('::' + q.split('::')[-1]) and q.split('::')[-1] == t.split('::')[-1]:
                return d
        return None

    def _has_user_ctor(self, rec):
        return any(c.get('kind') == 'CXXConstructorDecl' and not c.get('isImplicit') for c in kids(rec))

    def ctor_init(self, ci, st, u, f):
        this = st.refs.get('this')
        fld = (ci.get('anyInit') or {}).get('name')
        ks = kids(ci)
        if this is None or fld is None or not ks:
            for c in ks:
                st = self.eval(c, st, u)[0][1]
            return [st]
        out = []
        for (v, s) in self.eval(ks[0], st, u):
            self.assign(this + (fld,), v, s, (ci.get('anyInit') or {}).get('type', {}).get('qualType', ''), ks[0], u)
            out.append(s)
        return out

    # ------------------------------------------------------------------ assignment
    def assign(self, loc, v, st, t, e, u, explicit=False):
        if isinstance(v, StructV):
            if v.loc != loc:
                st.copy_struct(v.loc, loc)
            return
        if v is UNINIT or v is MAYBE_UNINIT:
            v = TOP
        it = int_type(t) if t else None
        if it and isinstance(v, Int):
            r = type_range(it)
            if not v.within(r[0], r[1]):
                self.obs.narrowing(self, e, v, it, explicit, st)
                v = Int(r[0], r[1])
        elif it and v is TOP:
            r = type_range(it)
            v = Int(r[0], r[1])
        st.set(loc, v)

    # ------------------------------------------------------------------ lvalues
    def lval(self, e, st, u):
        """[(Loc or None, st)]"""
        x = e
        while x is not None and x.get('kind') in ('ParenExpr', 'ExprWithCleanups', 'MaterializeTemporaryExpr',
                                                   'CXXBindTemporaryExpr', 'ConstantExpr', 'FullExpr'):
            x = kids(x)[0]
        k = x.get('kind')
        if k == 'ImplicitCastExpr':
            if x.get('castKind') in ('NoOp', 'DerivedToBase', 'UncheckedDerivedToBase', 'ConstructorConversion'):
                return self.lval(kids(x)[0], st, u)
            if x.get('castKind') == 'LValueToRValue':
                return self.lval(kids(x)[0], st, u)
            # temporaries
            out = []
            for (v, s) in self.eval(x, st, u):
                out.append((self._temp(x, v, s), s))
            return out
        if k == 'DeclRefExpr':
            rd = x.get('referencedDecl') or {}
            i = rd.get('id')
            if i in st.refs:
                return [(st.refs[i], st)]
            return [((i,), st)]
        if k == 'CXXThisExpr':
            return [(None, st)]
        if k == 'MemberExpr' and x.get('name') == '' and kids(x):
            return self.lval(kids(x)[0], st, u) if not x.get('isArrow') else [
                (pv.target if isinstance(pv, Ptr) else None, s) for (pv, s) in self.eval(kids(x)[0], st, u)]
        if k == 'MemberExpr':
            ks = kids(x)
            if not ks:
                return [((st.refs.get('this') or ('this',)) + (x.get('name'),), st)]
            b = ks[0]
            out = []
            if x.get('isArrow'):
                bx = peel(b, explicit=False)
                if bx.get('kind') == 'CXXThisExpr':
                    return [((st.refs.get('this') or ('this',)) + (x.get('name'),), st)]
                for (pv, s) in self.eval(b, st, u):
                    if isinstance(pv, Ptr) and pv.target is not None and (pv.off is None or pv.off.const() == 0):
                        out.append((pv.target + (x.get('name'),), s))
                    else:
                        out.append((None, s))
                return out
            for (l, s) in self.lval(b, st, u):
                out.append((l + (x.get('name'),) if l is not None else None, s))
            return out
        if k == 'UnaryOperator' and x.get('opcode') == '*':
            out = []
            for (pv, s) in self.eval(kids(x)[0], st, u):
                if isinstance(pv, Ptr):
                    s.refs['__deref__'] = pv
                if isinstance(pv, Ptr) and pv.target is not None:
                    if pv.off is None or pv.off.const() == 0:
                        out.append((pv.target, s))
                    elif pv.off.const() is not None:
                        out.append((pv.target + ('[%d]' % pv.off.const(),), s))
                    else:
                        out.append((pv.target + ('[*]',), s))
                else:
                    out.append((None, s))
            return out
        if k == 'UnaryOperator' and x.get('opcode') in ('++', '--') and not x.get('isPostfix'):
            out = []
            for (v, s) in self.eval(x, st, u):
                out += self.lval(kids(x)[0], s, u)
            return out
        if k == 'ArraySubscriptExpr':
            a, b = kids(x)
            out = []
            for (pv, s) in self.eval(a, st, u):
                for (iv, s2) in self.eval(b, s, u):
                    if isinstance(pv, Ptr) and pv.target is not None and isinstance(iv, Int) and pv.off is not None:
                        off = self.add(pv.off, iv)
                        c = off.const()
                        s2.refs['__deref__'] = Ptr(pv.null, pv.target, off)
                        out.append((pv.target + (('[%d]' % c) if c is not None else '[*]',), s2))
                    else:
                        out.append((None, s2))
            return out
        if k in ('BinaryOperator', 'CompoundAssignOperator') and (x.get('opcode') == '=' or x.get('opcode', '').endswith('=')):
            out = []
            for (v, s) in self.eval(x, st, u):
                out += self.lval(kids(x)[0], s, u)
            return out
        if k in ('CallExpr', 'CXXMemberCallExpr', 'CXXOperatorCallExpr', 'CXXConstructExpr', 'CXXTemporaryObjectExpr',
                 'CXXFunctionalCastExpr', 'InitListExpr', 'ConditionalOperator', 'CXXStaticCastExpr'):
            out = []
            for (v, s) in self.eval(x, st, u):
                if isinstance(v, StructV):
                    out.append((v.loc, s))
                elif isinstance(v, Ptr) and k in ('CallExpr', 'CXXMemberCallExpr', 'CXXOperatorCallExpr') and \
                        qtype(x).rstrip().endswith('&'):
                    out.append((v.target, s))
                else:
                    out.append((self._temp(x, v, s), s))
            return out
        return [(None, st)]

    def _temp(self, e, v, s):
        loc = ('tmp', id(e), self.depth)
        if isinstance(v, StructV):
            return v.loc
        s.mem[loc] = v
        return loc

    def _simple_loc(self, e, st, u):
        x = peel(e)
        if x is not None and x.get('kind') in ('DeclRefExpr', 'MemberExpr'):
            r = self.lval(x, st.copy(), u)
            if len(r) == 1:
                return r[0][0]
        return None

    # ------------------------------------------------------------------ arithmetic
    def add(self, a, b):
        return Int(a.lo + b.lo, a.hi + b.hi)

    def sub(self, a, b):
        return Int(a.lo - b.hi, a.hi - b.lo)

    def mul(self, a, b):
        c = []
        for x in (a.lo, a.hi):
            for y in (b.lo, b.hi):
                if (x in (INF, -INF) and y == 0) or (y in (INF, -INF) and x == 0):
                    c.append(0)
                else:
                    c.append(x * y)
        return Int(min(c), max(c))

    def div(self, a, b):
        # C division truncates toward zero; b must not contain 0 for a precise answer
        parts = []
        for (blo, bhi) in ((b.lo, min(b.hi, -1)), (max(b.lo, 1), b.hi)):
            if blo > bhi:
                continue
            c = []
            for x in (a.lo, a.hi):
                for y in (blo, bhi):
                    if y in (INF, -INF):
                        c.append(0)
                    elif x in (INF, -INF):
                        c.append(x if (y > 0) else -x)
                    else:
                        c.append(cdiv(x, y))
            if a.lo <= 0 <= a.hi:
                c.append(0)
            parts.append(Int(min(c), max(c)))
        if not parts:
            return Int(-INF, INF)
        r = parts[0]
        for p in parts[1:]:
            r = r.join(p)
        return r

    def mod(self, a, b):
        m = max(abs(b.lo), abs(b.hi))
        if m in (INF,) or m == 0:
            return Int(-INF if a.lo < 0 else 0, INF if a.hi > 0 else 0)
        if a.lo >= 0 and a.hi < min(abs(x) for x in (b.lo, b.hi) if x != 0) and b.lo > 0:
            return Int(a.lo, a.hi)
        if a.lo >= 0 and a.hi not in (INF,) and b.const() is not None and b.lo > 0 and a.hi - a.lo < b.lo and \
                cmod(a.lo, b.lo) <= cmod(a.hi, b.lo):
            return Int(cmod(a.lo, b.lo), cmod(a.hi, b.lo))
        lo = -(m - 1) if a.lo < 0 else 0
        hi = (m - 1) if a.hi > 0 else 0
        if a.lo >= 0:
            hi = min(hi, a.hi)
        if a.hi <= 0:
            lo = max(lo, a.lo)
        return Int(lo, hi)

    # ------------------------------------------------------------------ rvalues
    def eval(self, e, st, u):
        """[(value, state)]"""
        k = e.get('kind')
        m = getattr(self, 'e_' + k, None) if k else None
        if m is None:
            v = self.folder(u).fold(e)
            if v is not None:
                return [(I(v), st)]
            # unknown expression kind: evaluate children for effects, yield TOP
            cur = [st]
            for c in kids(e):
                nxt = []
                for s in cur:
                    nxt += [s2 for (_, s2) in self.eval(c, s, u)]
                cur = nxt
            return [(self.top_of(dtype(e)), s) for s in cur]
        return m(e, st, u)

    def e_LambdaExpr(self, e, st, u):
        """Creating a closure runs no code of the body (the body is followed where the closure is called); init-captures
        are evaluated for their effects."""
        cur = [st]
        for c in kids(e):
            if c.get('kind') in ('CXXRecordDecl', 'CompoundStmt'):
                continue
            cur = [s2 for s in cur for (_, s2) in self.eval(c, s, u)]
        return [(TOP, s) for s in cur]

    def _wrap1(self, e, st, u):
        return self.eval(kids(e)[0], st, u)

    e_ParenExpr = _wrap1
    e_ExprWithCleanups = _wrap1
    e_MaterializeTemporaryExpr = _wrap1
    e_CXXBindTemporaryExpr = _wrap1
    e_ConstantExpr = _wrap1
    e_FullExpr = _wrap1

    def e_IntegerLiteral(self, e, st, u):
        return [(I(int(e['value'])), st)]

    def e_CharacterLiteral(self, e, st, u):
        return [(I(int(e['value'])), st)]

    def e_CXXBoolLiteralExpr(self, e, st, u):
        return [(I(1 if e.get('value') else 0), st)]

    def e_CXXNullPtrLiteralExpr(self, e, st, u):
        return [(NULLP, st)]

    def e_GNUNullExpr(self, e, st, u):
        return [(NULLP, st)]

    def e_StringLiteral(self, e, st, u):
        v = e.get('value', '""')
        try:
            txt = bytes(v[1:-1], 'utf-8').decode('unicode_escape')
        except Exception:
            txt = None
        return [(Ptr('NN', ('str', id(e), len(txt) if txt is not None else None, txt), I(0)), st)]

    def e_UnaryExprOrTypeTraitExpr(self, e, st, u):
        v = self.folder(u).fold(e)
        return [(I(v) if v is not None else Int(0, INF), st)]

    def e_CXXScalarValueInitExpr(self, e, st, u):
        return [(I(0) if int_type(dtype(e)) else NULLP if dtype(e).endswith('*') else TOP, st)]

    e_ImplicitValueInitExpr = e_CXXScalarValueInitExpr

    def e_CXXThisExpr(self, e, st, u):
        return [(Ptr('NN', st.refs.get('this') or ('this',), I(0)), st)]

    def e_CXXDefaultArgExpr(self, e, st, u):
        ks = kids(e)
        return self.eval(ks[0], st, u) if ks else [(self.top_of(dtype(e)), st)]

    def e_DeclRefExpr(self, e, st, u):
        rd = e.get('referencedDecl') or {}
        if rd.get('kind') == 'EnumConstantDecl':
            v = self.folder(u).enum_value(rd.get('id'))
            return [(I(v) if v is not None else TOP, st)]
        if rd.get('kind') in ('FunctionDecl', 'CXXMethodDecl'):
            return [(Ptr('NN', ('fn', rd.get('id')), I(0)), st)]
        v = self.folder(u).fold(e)
        if v is not None and int_type(dtype(e)):
            return [(I(v), st)]
        # arrays denote themselves (decay happens in the cast)
        return [(self.read(e, st, u), st)]

    def read(self, e, st, u, report=True):
        ls = self.lval(e, st, u)
        if len(ls) != 1 or ls[0][0] is None:
            return self.top_of(dtype(e))
        loc = ls[0][0]
        t = dtype(e)
        if re.search(r'\[\d*\]', t or '') or self._record(u, (t or '').replace('const ', '').strip()) is not None:
            return StructV(loc)
        v = st.mem.get(loc)
        if v is None:
            # a field of a tracked-uninit object?
            return self.top_of(t)
        if v is UNINIT or v is MAYBE_UNINIT:
            if report:
                self.obs.uninit_read(self, e, loc, v is MAYBE_UNINIT, st)
            return self.top_of(t)
        if v is TOP:
            return self.top_of(t)
        if isinstance(v, Int):
            r = type_range(t)
            if r:
                mm = v.meet(Int(r[0], r[1]))
                return mm if mm is not None else Int(r[0], r[1])
        return v

    def e_MemberExpr(self, e, st, u):
        v = self.folder(u).fold(e)
        if v is not None:
            return [(I(v), st)]
        out = []
        for (l, s) in self.lval(e, st, u):
            if l is None:
                out.append((self.top_of(dtype(e)), s))
            else:
                t = dtype(e)
                if self._record(u, (t or '').replace('const ', '').strip()) is not None or re.search(r'\[\d*\]', t or ''):
                    out.append((StructV(l), s))
                    continue
                vv = s.mem.get(l)
                if vv is UNINIT or vv is MAYBE_UNINIT:
                    self.obs.uninit_read(self, e, l, vv is MAYBE_UNINIT, s)
                    vv = None
                if vv is None:
                    cv_ = self._const_init_value(l, u)
                    if cv_ is not None:
                        out.append((cv_, s))
                        continue
                if vv is None or vv is TOP:
                    av = self.assume_member(e)
                    vv = av if av is not None else self.top_of(t)
                elif isinstance(vv, Int):
                    r = type_range(t)
                    if r:
                        vv = vv.meet(Int(r[0], r[1])) or Int(r[0], r[1])
                out.append((vv, s))
        return out

    def e_ImplicitCastExpr(self, e, st, u):
        ck = e.get('castKind')
        sub = kids(e)[0]
        if ck == 'LValueToRValue':
            x = peel(sub, explicit=False)
            if x.get('kind') in ('DeclRefExpr', 'MemberExpr', 'ArraySubscriptExpr') or \
                    (x.get('kind') == 'UnaryOperator' and x.get('opcode') == '*'):
                return self.eval(sub, st, u)
            if x.get('kind') == 'CallExpr' and callee(x) and callee(x)[0] == 'fn' and callee(x)[1].get('name') in ('min', 'max', 'clamp') \
                    and (callee(x)[1].get('_qn') or '').startswith('std::'):
                return self.eval(x, st, u)       # a reference to one of the arguments: read as its value
            out = []
            for (l, s) in self.lval(sub, st, u):
                out.append((self._load(e, l, s, u, sub), s))
            return out
        if ck == 'ArrayToPointerDecay':
            out = []
            x = peel(sub, explicit=False)
            if x.get('kind') == 'StringLiteral':
                return self.eval(x, st, u)
            for (l, s) in self.lval(sub, st, u):
                out.append((Ptr('NN', l, I(0)) if l is not None else Ptr('NN', None, None), s))
            return out
        if ck == 'FunctionToPointerDecay':
            return self.eval(sub, st, u)
        if ck == 'NullToPointer':
            return [(NULLP, st)]
        if ck in ('IntegralCast', 'IntegralToBoolean', 'PointerToBoolean', 'BooleanToSignedIntegral'):
            out = []
            for (v, s) in self.eval(sub, st, u):
                out.append((self._intcast(e, v, dtype(e), s, ck, bool(e.get('isPartOfExplicitCast'))), s))
            return out
        if ck == 'UserDefinedConversion':
            return [(self.top_of(dtype(e)), s) for (_, s) in self.eval(sub, st, u)]
        return self.eval(sub, st, u)

    def _load(self, e, l, s, u, sub):
        t = dtype(e)
        if l is None:
            return self.top_of(t)
        if l and isinstance(l[0], str) and l[0] == 'str':
            return Int(0, 255) if 'unsigned' in t else Int(-128, 127)
        # element of a constant table?
        v = s.mem.get(l)
        if v is None and len(l) >= 2 and isinstance(l[-1], str) and l[-1].startswith('['):
            return self.top_of(t)
        if v is UNINIT or v is MAYBE_UNINIT:
            self.obs.uninit_read(self, sub, l, v is MAYBE_UNINIT, s)
            return self.top_of(t)
        if v is None or v is TOP:
            return self.top_of(t)
        return v

    def _intcast(self, e, v, t, s, ck, explicit):
        it = int_type(t)
        if ck in ('IntegralToBoolean', 'PointerToBoolean') or (it and it[0] == 1):
            if isinstance(v, Int):
                if v.lo == 0 and v.hi == 0:
                    return I(0)
                if v.lo > 0 or v.hi < 0:
                    return I(1)
            if isinstance(v, Ptr):
                return I(0) if v.null == 'N' else I(1) if v.null == 'NN' else Int(0, 1)
            return Int(0, 1)
        if it and isinstance(v, Int):
            r = type_range(it)
            if v.within(r[0], r[1]):
                return v
            self.obs.narrowing(self, e, v, it, explicit, s)
            return Int(r[0], r[1])
        if it:
            r = type_range(it)
            return Int(r[0], r[1])
        return v

    def _explicit_cast(self, e, st, u):
        ks = kids(e)
        sub = ks[-1]
        ck = e.get('castKind')
        out = []
        t = dtype(e)
        if self._record(u, (t or '').replace('const ', '').strip()) is not None:
            return self.eval(sub, st, u)
        for (v, s) in self.eval(sub, st, u):
            if int_type(t):
                out.append((self._intcast(e, v, t, s, ck or 'IntegralCast', True), s))
            else:
                out.append((v if isinstance(v, Ptr) else self.top_of(t), s))
        return out

    e_CXXStaticCastExpr = _explicit_cast
    e_CStyleCastExpr = _explicit_cast
    e_CXXConstCastExpr = _explicit_cast
    e_CXXReinterpretCastExpr = _explicit_cast

    def e_CXXFunctionalCastExpr(self, e, st, u):
        ks = kids(e)
        if ks and ks[0].get('kind') in ('CXXConstructExpr', 'InitListExpr', 'CXXTemporaryObjectExpr'):
            return self.eval(ks[0], st, u)
        return self._explicit_cast(e, st, u)

    def e_UnaryOperator(self, e, st, u):
        op = e.get('opcode')
        sub = kids(e)[0]
        if op == '&':
            return [(Ptr('NN', l, I(0)) if l is not None else Ptr('NN', None, None), s) for (l, s) in self.lval(sub, st, u)]
        if op == '*':
            out = []
            for (pv, s) in self.eval(sub, st, u):
                if isinstance(pv, Ptr):
                    self._check_access(e, pv, s, u, store=False)
                out.append((self._deref(e, pv, s, u), s))
            return out
        if op in ('++', '--'):
            out = []
            d = 1 if op == '++' else -1
            for (l, s) in self.lval(sub, st, u):
                old = s.mem.get(l) if l is not None else None
                if old is None or old is TOP or old is UNINIT or old is MAYBE_UNINIT:
                    old = self.top_of(dtype(sub))
                if isinstance(old, Int):
                    new = self.add(old, I(d))
                elif isinstance(old, Ptr):
                    new = Ptr(old.null, old.target, self.add(old.off, I(d)) if old.off is not None else None)
                else:
                    new = old
                if l is not None:
                    self.assign(l, new, s, dtype(sub), e, u)
                    new2 = s.mem.get(l, new)
                else:
                    new2 = new
                out.append((old if e.get('isPostfix') else new2, s))
            return out
        out = []
        for (v, s) in self.eval(sub, st, u):
            if op == '-' and isinstance(v, Int):
                r = Int(-v.hi, -v.lo)
                out.append((self._arith_result(e, r, s), s))
            elif op == '+':
                out.append((v, s))
            elif op == '!':
                if isinstance(v, Int):
                    r = I(1) if (v.lo == 0 and v.hi == 0) else I(0) if (v.lo > 0 or v.hi < 0) else Int(0, 1)
                elif isinstance(v, Ptr):
                    r = I(1) if v.null == 'N' else I(0) if v.null == 'NN' else Int(0, 1)
                else:
                    r = Int(0, 1)
                out.append((r, s))
            else:
                out.append((self.top_of(dtype(e)), s))
        return out

    def _deref(self, e, pv, s, u):
        t = dtype(e)
        if not isinstance(pv, Ptr) or pv.target is None:
            return self.top_of(t)
        tg = pv.target
        if s.rel and pv.off is not None and pv.off.const() is not None and (t or '').strip() == 'const char':
            cv_ = self._cell_get(s, tg, pv.off.const())
            if cv_ is not None:
                tv_ = self.top_of(t)
                mm_ = cv_.meet(tv_) if isinstance(tv_, Int) else cv_
                if mm_ is not None:
                    return mm_
        if tg and tg[0] == 'str':
            return self._str_chars(tg, pv.off, t)
        if self._record(u, (t or '').replace('const ', '').strip()) is not None:
            return StructV(tg)
        if pv.off is not None and pv.off.const() == 0:
            v = s.mem.get(tg)
            if v is not None and v is not TOP and v is not UNINIT and v is not MAYBE_UNINIT and not isinstance(v, StructV):
                return v
            if v is UNINIT or v is MAYBE_UNINIT:
                self.obs.uninit_read(self, e, tg, v is MAYBE_UNINIT, s)
        # element of a constant array
        arr = self._const_array(tg, u)
        if arr is not None and pv.off is not None:
            vals = [x for i, x in enumerate(arr) if pv.off.lo <= i <= pv.off.hi and isinstance(x, int)]
            if vals:
                return Int(min(vals), max(vals))
        return self.top_of(t)

    def _str_chars(self, tg, off, t):
        txt = tg[3] if len(tg) > 3 else None
        if txt is not None and off is not None and off.lo >= 0 and off.hi <= len(txt) and off.hi != INF:
            vals = [(ord(txt[i]) if i < len(txt) else 0) for i in range(int(off.lo), int(off.hi) + 1)]
            vals = [v if v < 128 else v - 256 for v in vals]
            return Int(min(vals), max(vals))
        return Int(0, 255) if 'unsigned' in (t or '') else Int(-128, 127)

    def _const_array(self, loc, u):
        if loc is None or len(loc) < 1:
            return None
        d = u.by_id.get(loc[0]) if isinstance(loc[0], str) else None
        if d is None or d.get('kind') != 'VarDecl' or 'init' not in d:
            return None
        t = qtype(d)
        if not (t.startswith('const ') or d.get('constexpr')):
            return None
        try:
            vals = table_of(u, d)[0]
        except Exception:
            return None
        for idx in loc[1:]:
            m = re.match(r'^\[(\d+)\]$', idx) if isinstance(idx, str) else None
            m2 = re.match(r'^\[(\d+):(\d+)\]$', idx) if isinstance(idx, str) else None
            if m and isinstance(vals, list) and int(m.group(1)) < len(vals):
                vals = vals[int(m.group(1))]
            elif m2 and isinstance(vals, list) and int(m2.group(2)) < len(vals):
                # a range of rows: element-wise hull, entries become (lo, hi)
                rows = vals[int(m2.group(1)):int(m2.group(2)) + 1]
                if not rows or not all(isinstance(r, list) and len(r) == len(rows[0]) and all(isinstance(x, int) for x in r) for r in rows):
                    return None
                vals = [(min(r[i] for r in rows), max(r[i] for r in rows)) for i in range(len(rows[0]))]
            else:
                return None
        return vals if isinstance(vals, list) else None

    def _const_init_value(self, loc, u):
        """Value of a scalar leaf of a constant object with static storage (a table of records, say), read from its
        initialiser: loc = (decl id, '[i]' | field name, ...). None when it is not such a leaf."""
        if loc is None or len(loc) < 2 or not isinstance(loc[0], str):
            return None
        d = u.by_id.get(loc[0])
        if d is None or d.get('kind') != 'VarDecl' or 'init' not in d or not kids(d):
            return None
        t = qtype(d)
        if not (t.startswith('const ') or d.get('constexpr')):
            return None
        local_nonstatic = any(a.get('kind') in ('FunctionDecl', 'CXXMethodDecl', 'CXXConstructorDecl') for a in ancestors(d)) and \
            d.get('storageClass') != 'static'
        if local_nonstatic:
            return None
        x = peel(kids(d)[-1], explicit=False)
        for step in loc[1:]:
            while x is not None and x.get('kind') in ('ExprWithCleanups', 'MaterializeTemporaryExpr', 'CXXBindTemporaryExpr', 'ConstantExpr'):
                x = peel(kids(x)[0], explicit=False)
            if x is None or x.get('kind') != 'InitListExpr' or not isinstance(step, str):
                return None
            ks = kids(x)
            m = re.match(r'^\[(\d+)\]$', step)
            if m:
                if x.get('array_filler') or int(m.group(1)) >= len(ks):
                    return None
                x = peel(ks[int(m.group(1))], explicit=False)
                continue
            if step.startswith('['):
                return None
            rec = self._record(u, (dtype(x) or qtype(x) or ''))
            if rec is None:
                return None
            flds = [y.get('name') for y in kids(rec) if y.get('kind') == 'FieldDecl']
            if step not in flds or len(ks) != len(flds) or any(y.get('kind') == 'CXXRecordDecl' and y.get('tagUsed') == 'union' for y in [rec]):
                return None
            x = peel(ks[flds.index(step)], explicit=False)
        if x is None or x.get('kind') in ('InitListExpr', 'ImplicitValueInitExpr'):
            return I(0) if x is not None and x.get('kind') == 'ImplicitValueInitExpr' and int_type(dtype(x) or '') else None
        v = self.folder(u).fold(x)
        return I(v) if v is not None else None

    def _array_extent(self, loc, u):
        if loc is None:
            return None
        if loc[0] == 'str':
            return (loc[2] + 1) if loc[2] is not None else None
        d = u.by_id.get(loc[0]) if isinstance(loc[0], str) else None
        if d is None:
            return None
        dims = [int(x) for x in re.findall(r'\[(\d+)\]', dtype(d) or qtype(d))]
        sa_ = self._std_array(d)
        if sa_ and not dims:
            dims = [sa_[1]]
        depth = len([i for i in loc[1:] if isinstance(i, str) and i.startswith('[')])
        if len(loc) > 1 and not all(isinstance(i, str) and i.startswith('[') for i in loc[1:]):
            return None
        if depth < len(dims):
            return dims[depth]
        return None

    def _check_access(self, e, pv, s, u, store):
        if store and self.value_numbers:
            self._vn_kill_bytes(s)          # a store through a pointer may change any byte a pointer value points at
        if pv.target is None or pv.off is None:
            if store:
                self.obs.store(self, e, pv, None, s)
            return
        ext = self._array_extent(pv.target, u)
        if ext is None:
            if isinstance(pv.target, tuple) and pv.target[:1] == ('symbuf',):
                (self.obs.store if store else self.obs.load)(self, e, pv, None, s)   # caller-supplied buffer of unknown extent
            return
        if store:
            self.obs.store(self, e, pv, ext, s)
        else:
            self.obs.load(self, e, pv, ext, s)

    def e_ArraySubscriptExpr(self, e, st, u):
        a, b = kids(e)
        out = []
        for (pv, s) in self.eval(a, st, u):
            for (iv, s2) in self.eval(b, s, u):
                if isinstance(pv, Ptr) and isinstance(iv, Int) and pv.off is not None:
                    p2 = Ptr(pv.null, pv.target, self.add(pv.off, iv))
                    ext = self._array_extent(pv.target, u) if pv.target is not None else None
                    if ext is not None:
                        self.obs.subscript(self, e, ext, p2.off, s2)
                    out.append((self._deref_elem(e, p2, s2, u), s2))
                else:
                    out.append((self.top_of(dtype(e)), s2))
        return out

    def _deref_elem(self, e, pv, s, u):
        t = dtype(e)
        if re.search(r'\[\d+\]', t or ''):
            # row of a 2-d array: keep as pointer-able location
            c = pv.off.const() if pv.off is not None else None
            if c is None and pv.off is not None and pv.off.lo not in (INF, -INF) and pv.off.hi not in (INF, -INF) and \
                    0 <= pv.off.lo <= pv.off.hi <= pv.off.lo + 8:
                return StructV(pv.target + ('[%d:%d]' % (pv.off.lo, pv.off.hi),))
            return StructV(pv.target + (('[%d]' % c) if c is not None else '[*]',))
        if pv.target is not None and pv.off is not None:
            c = pv.off.const()
            if c is not None:
                v = s.mem.get(pv.target + ('[%d]' % c,))
                if isinstance(v, (Int, Ptr)):
                    return v
                if s.rel and (t or '').strip() == 'const char':
                    cv_ = self._cell_get(s, pv.target, c)
                    if cv_ is not None:
                        tv_ = self.top_of(t)
                        mm_ = cv_.meet(tv_) if isinstance(tv_, Int) else cv_
                        if mm_ is not None:
                            return mm_
            arr = self._const_array(pv.target, u)
            if arr is not None:
                vals = [x for i, x in enumerate(arr) if pv.off.lo <= i <= pv.off.hi and isinstance(x, (int, tuple))]
                if vals:
                    return Int(min(x if isinstance(x, int) else x[0] for x in vals), max(x if isinstance(x, int) else x[1] for x in vals))
            if pv.target[0] == 'str':
                return self._str_chars(pv.target, pv.off, t)
        return self.top_of(t)

    def e_ConditionalOperator(self, e, st, u):
        c, a, b = kids(e)
        out = []
        for s in self.refine(c, st.copy(), True, u):
            out += self.eval(a, s, u)
        for s in self.refine(c, st.copy(), False, u):
            out += self.eval(b, s, u)
        return self._merge_results(out)

    def _merge_results(self, out):
        if len(out) <= 1:
            return out
        groups = {}
        for (v, s) in out:
            k = (self.pkey(s), self._vkey(v), v.loc if isinstance(v, StructV) else None)
            if k in groups:
                groups[k] = (vjoin(groups[k][0], v) if not isinstance(v, StructV) else v, groups[k][1].join(s))
            else:
                groups[k] = (v, s)
        return list(groups.values())

    def e_BinaryOperator(self, e, st, u):
        op = e.get('opcode')
        a, b = kids(e)
        if op == ',':
            out = []
            for (_, s) in self.eval(a, st, u):
                out += self.eval(b, s, u)
            return out
        if op == '&&' or op == '||':
            out = []
            for truth in (True, False):
                for s in self.refine(e, st.copy(), truth, u):
                    out.append((I(1 if truth else 0), s))
            return self._merge_results(out)
        if op == '=':
            out = []
            for (v, s) in self.eval(b, st, u):
                s.refs.pop('__deref__', None)
                for (l, s2) in self.lval(a, s, u):
                    pv = s2.refs.pop('__deref__', None)
                    if pv is not None:
                        self._check_access(a, pv, s2, u, store=True)
                    if l is not None:
                        self.assign(l, v, s2, dtype(a), e, u)
                        if self.value_numbers and isinstance(v, Ptr):
                            self._vn_copy(s2, l, b, u, e)
                    out.append((v, s2))
            return out
        if op in ('<', '>', '<=', '>=', '==', '!='):
            out = []
            for truth in (True, False):
                for s in self.refine(e, st.copy(), truth, u):
                    out.append((I(1 if truth else 0), s))
            return self._merge_results(out) or [(Int(0, 1), st)]
        out = []
        for (va, s) in self.eval(a, st, u):
            for (vb, s2) in self.eval(b, s, u):
                r_ = self._binop(e, op, va, vb, s2, u, a, b)
                if op == '-' and s2.rel is not None:
                    qr = self._quotient_remainder(a, b, va, s2, u)
                    if qr is not None and isinstance(r_, Int):
                        r_ = r_.meet(qr) or qr
                    elif qr is not None:
                        r_ = qr
                out.append((r_, s2))
        return out

    def _check_store_target(self, a, s, u):
        x = peel(a, explicit=False)
        if x.get('kind') == 'UnaryOperator' and x.get('opcode') == '*':
            for (pv, _) in self.eval(kids(x)[0], s.copy(), u):
                if isinstance(pv, Ptr):
                    self._check_access(x, pv, s, u, store=True)
        elif x.get('kind') == 'ArraySubscriptExpr':
            pa, pb = kids(x)
            for (pv, s1) in self.eval(pa, s.copy(), u):
                for (iv, _) in self.eval(pb, s1, u):
                    if isinstance(pv, Ptr) and isinstance(iv, Int) and pv.off is not None:
                        self._check_access(x, Ptr(pv.null, pv.target, self.add(pv.off, iv)), s, u, store=True)

    def _binop(self, e, op, va, vb, s, u, a=None, b=None):
        if isinstance(va, Ptr) or isinstance(vb, Ptr):
            if op == '+' and isinstance(va, Ptr) and isinstance(vb, Int):
                return Ptr(va.null, va.target, self.add(va.off, vb) if va.off is not None else None)
            if op == '+' and isinstance(vb, Ptr) and isinstance(va, Int):
                return Ptr(vb.null, vb.target, self.add(vb.off, va) if vb.off is not None else None)
            if op == '-' and isinstance(va, Ptr) and isinstance(vb, Int):
                return Ptr(va.null, va.target, self.sub(va.off, vb) if va.off is not None else None)
            if op == '-' and isinstance(va, Ptr) and isinstance(vb, Ptr):
                if va.target is not None and va.target == vb.target and va.off is not None and vb.off is not None:
                    r = self.sub(va.off, vb.off)
                    if a is not None and b is not None:
                        rl = self._rel_bound(a, b, s, u)
                        if rl is not None:
                            r = Int(max(r.lo, rl), r.hi)
                    return r
                return self.top_of(dtype(e))
            return self.top_of(dtype(e))
        if not (isinstance(va, Int) and isinstance(vb, Int)):
            return self.top_of(dtype(e))
        if op == '+':
            r = self.add(va, vb)
        elif op == '-':
            r = self.sub(va, vb)
            if a is not None and b is not None:
                rl = self._rel_bound(a, b, s, u)
                if rl is not None:
                    r = Int(max(r.lo, rl), r.hi)
        elif op == '*':
            r = self.mul(va, vb)
        elif op == '/':
            r = self.div(va, vb)
        elif op == '%':
            r = self.mod(va, vb)
        elif op == '<<':
            if vb.const() is not None and 0 <= vb.const() < 64:
                r = self.mul(va, I(1 << vb.const()))
            else:
                r = Int(-INF, INF)
        elif op == '>>':
            if vb.const() is not None and 0 <= vb.const() < 64 and va.lo >= 0:
                r = Int(va.lo >> vb.const() if va.lo != INF else 0, va.hi >> vb.const() if va.hi != INF else INF)
            else:
                r = Int(-INF, INF)
        elif op == '&':
            if vb.lo >= 0 and vb.hi != INF:
                r = Int(0, vb.hi)
            elif va.lo >= 0 and va.hi != INF:
                r = Int(0, va.hi)
            else:
                r = Int(-INF, INF)
        elif op == '|' or op == '^':
            if va.lo >= 0 and vb.lo >= 0 and va.hi != INF and vb.hi != INF:
                bits = max(int(va.hi).bit_length(), int(vb.hi).bit_length())
                r = Int(0, (1 << bits) - 1)
            else:
                r = Int(-INF, INF)
        else:
            r = Int(-INF, INF)
        return self._arith_result(e, r, s)

    def _arith_result(self, e, r, s):
        it = int_type(dtype(e))
        if it:
            tr = type_range(it)
            if not r.within(tr[0], tr[1]):
                self.obs.overflow(self, e, r, it, s)
                if it[1]:
                    return Int(tr[0], tr[1])
                # unsigned wrap
                return Int(tr[0], tr[1])
        return r

    def _rel_bound(self, a, b, s, u):
        la = self._simple_loc(a, s, u)
        lb = self._simple_loc(b, s, u)
        if la is not None and lb is not None:
            return s.rel.get((la, lb))
        return None

    def e_CompoundAssignOperator(self, e, st, u):
        op = e.get('opcode')[:-1]
        a, b = kids(e)
        out = []
        for (vb, s) in self.eval(b, st, u):
            for (l, s2) in self.lval(a, s, u):
                va = s2.mem.get(l) if l is not None else None
                if va is None or va is TOP or va is UNINIT or va is MAYBE_UNINIT:
                    va = self.top_of(dtype(a))
                r = self._binop(e, op, va, vb, s2, u, a, b)
                if l is not None:
                    self.assign(l, r, s2, dtype(a), e, u)
                    r = s2.mem.get(l, r)
                out.append((r, s2))
        return out

    # ------------------------------------------------------------------ construction / init lists
    def e_InitListExpr(self, e, st, u):
        t = (dtype(e) or qtype(e)).replace('const ', '').strip()
        rec = self._record(u, t)
        loc = ('tmp', id(e), self.depth)
        cur = [st]
        if rec is None:
            ks = kids(e)
            if len(ks) == 1:
                return self.eval(ks[0], st, u)
            return [(StructV(loc), st)]
        flds = [c for c in kids(rec) if c.get('kind') == 'FieldDecl']
        for fd, init in zip(flds, kids(e)):
            nxt = []
            for s in cur:
                for (v, s2) in self.eval(init, s, u):
                    self.assign(loc + (fd['name'],), v, s2, dtype(fd), init, u)
                    nxt.append(s2)
            cur = nxt
        return [(StructV(loc), s) for s in cur]

    def e_CXXConstructExpr(self, e, st, u):
        c = callee(e)
        t = (dtype(e) or qtype(e)).replace('const ', '').strip()
        args = call_args(e)
        rec = self._record(u, t)
        if rec is None and 'cctz::' in t:
            ctor = self._find_ctor(t, (e.get('ctorType') or {}).get('qualType', ''))
            if ctor is not None:
                outs = self.call_function(ctor, args, st, u, e, this_loc=('tmp', id(e), self.depth))
                if outs is not None:
                    return [(StructV(('tmp', id(e), self.depth)), s_) for (_, s_) in outs]
        if rec is None:
            # scalar-like / std:: class: value of the single argument when it is a conversion
            cur = [(st, [])]
            for a in args:
                nxt = []
                for (s, vs) in cur:
                    for (v, s2) in self.eval(a, s, u):
                        nxt.append((s2, vs + [v]))
                cur = nxt
            out_states = [s for (s, vs) in cur]
            if len(args) == 1:
                for (s, vs) in cur:
                    self.obs.construct(self, e, t, vs, s)
                if ('duration' in t or 'time_point' in t) and cur and all(isinstance(vs[-1], (Int, Ptr)) for (s, vs) in cur):
                    return [(vs[-1], s) for (s, vs) in cur]
            return [(self.top_of(t), s) for s in out_states]
        loc = ('tmp', id(e), self.depth)
        # copy / move
        if len(args) == 1 and _same_record(qtype(args[0]), t):
            out = []
            for (v, s) in self.eval(args[0], st, u):
                if isinstance(v, StructV):
                    s.copy_struct(v.loc, loc)
                out.append((StructV(loc), s))
            return out
        # user constructor defined in /repo?
        ctor = self._find_ctor(t, (e.get('ctorType') or {}).get('qualType', ''))
        if ctor is not None:
            outs = self.call_function(ctor, args, st, u, e, this_loc=loc)
            if outs is not None:
                return [(StructV(loc), s) for (_, s) in outs]
        cur = [st]
        for a in args:
            nxt = []
            for s in cur:
                nxt += [s2 for (_, s2) in self.eval(a, s, u)]
            cur = nxt
        if not args and not self._has_user_ctor(rec):
            for s in cur:
                self._uninit_record(rec, loc, s, u) if e.get('zeroing') is None and not e.get('list') else None
        return [(StructV(loc), s) for s in cur]

    e_CXXTemporaryObjectExpr = e_CXXConstructExpr

    def _find_ctor(self, cls, ctortype):
        from .callgraph import norm_type
        want = tuple(norm_type(p) for p in split_params(ctortype))
        nc = norm_type(cls)
        for k, (uu, ff) in self.G.defs.items():
            if ff.get('kind') == 'CXXConstructorDecl' and k[1] == want:
                owner = norm_type('::'.join(k[0].split('::')[:-1]))
                if owner == nc or owner.endswith('::' + nc) or nc.endswith('::' + owner) or owner.split('<')[0] == nc.split('<')[0] and owner == nc:
                    return k
        return None

    # ------------------------------------------------------------------ calls
    def e_CallExpr(self, e, st, u):
        c = callee(e)
        args = call_args(e)
        if c and c[0] == 'fn':
            d = c[1]
            v = self.folder(u).fold(e)
            if v is not None:
                return [(I(v), st)]
            name = d.get('name')
            tg = self.G.resolve_decl(d) if d.get('_qn') else []
            if len(tg) == 1:
                r = self.call_function(tg[0], args, st, u, e)
                if r is not None:
                    return r
            m = self.extern_model.get(name) or getattr(self, 'x_' + str(name), None)
            if m is not None:
                return m(e, args, st, u)
        return self._unknown_call(e, args, st, u, c)

    def e_CXXMemberCallExpr(self, e, st, u):
        c = callee(e)
        args = call_args(e)
        if c and c[0] == 'method':
            d = u.by_id.get(c[3])
            if d is not None and d.get('kind') in ('CXXMethodDecl', 'CXXConversionDecl'):
                tg = self.G.resolve_decl(d)
                if len(tg) == 1 and not d.get('virtual'):
                    outs = []
                    objs = self.lval(c[2], st, u) if c[2] is not None else [(st.refs.get('this'), st)]
                    me = peel(kids(e)[0], explicit=False)
                    if me.get('isArrow') and c[2] is not None:
                        objs = []
                        bx = peel(c[2], explicit=False)
                        if bx.get('kind') == 'CXXThisExpr':
                            objs = [(st.refs.get('this') or ('this',), st)]
                        else:
                            for (pv, s) in self.eval(c[2], st, u):
                                objs.append((pv.target if isinstance(pv, Ptr) else None, s))
                    for (l, s) in objs:
                        r = self.call_function(tg[0], args, s, u, e, this_loc=l or ('unk', id(e)))
                        if r is None:
                            return self._unknown_call(e, args, st, u, c)
                        outs += r
                    return outs
            mm = self.method_model.get(c[1])
            if mm is not None:
                r = mm(self, e, c, args, st, u)
                if r is not None:
                    return r
            m = getattr(self, 'm_' + re.sub(r'\W', '_', str(c[1])), None)
            if m is not None:
                r = m(e, c, args, st, u)
                if r is not None:
                    return r
        return self._unknown_call(e, args, st, u, c)

    def e_CXXOperatorCallExpr(self, e, st, u):
        c = callee(e)
        args = call_args(e)
        if c and c[0] == 'fn':
            d = c[1]
            tg = self.G.resolve_decl(d) if d.get('_qn') else []
            if len(tg) == 1:
                if d.get('kind') == 'CXXMethodDecl':
                    outs = []
                    for (l, s) in self.lval(args[0], st, u):
                        r = self.call_function(tg[0], args[1:], s, u, e, this_loc=l or ('unk', id(e)))
                        if r is None:
                            return self._unknown_call(e, args, st, u, c)
                        outs += r
                    return outs
                r = self.call_function(tg[0], args, st, u, e)
                if r is not None:
                    return r
            if d.get('name') == 'operator=' and len(args) == 2:
                # implicit copy assignment of a record
                out = []
                for (v, s) in self.eval(args[1], st, u):
                    for (l, s2) in self.lval(args[0], s, u):
                        if l is not None and isinstance(v, StructV):
                            s2.copy_struct(v.loc, l)
                        elif l is not None:
                            s2.havoc(l)
                        out.append((StructV(l) if l is not None else TOP, s2))
                return out
        return self._unknown_call(e, args, st, u, c)

    def _unknown_call(self, e, args, st, u, c):
        if self.value_numbers:
            self._vn_kill_bytes(st)
        cur = [st]
        ptypes = []
        if c and c[0] == 'fn':
            ptypes = split_params(qtype(c[1]))
        k = e.get('kind')
        obj = None
        if k == 'CXXMemberCallExpr' and c and c[0] == 'method':
            obj = c[2]
        first = 0
        if k == 'CXXOperatorCallExpr' and c and c[0] == 'fn' and c[1].get('kind') == 'CXXMethodDecl':
            obj = args[0]
            args = args[1:]
        summary = None
        if obj is not None and c and (c[0] == 'method' or c[0] == 'fn'):
            d_ = u.by_id.get(c[3]) if c[0] == 'method' else c[1]
            if d_ is not None and d_.get('_qn'):
                tg_ = self.G.resolve_decl(d_)
                if len(tg_) == 1:
                    summary = self.this_writes(tg_[0])
        if obj is not None and summary is not None:
            # a method of /repo that is not inlined: only the members it (transitively) writes
            nxt = []
            for s in cur:
                me = peel(kids(e)[0], explicit=False) if k == 'CXXMemberCallExpr' else None
                locs = []
                if me is not None and me.get('isArrow'):
                    for (pv, s2) in self.eval(obj, s, u):
                        locs.append((pv.target if isinstance(pv, Ptr) else None, s2))
                else:
                    locs = self.lval(obj, s, u)
                for (l, s2) in locs:
                    if l is not None:
                        for fld in summary:
                            s2.havoc(l + (fld,))
                    nxt.append(s2)
            cur = nxt
        elif obj is not None and not self._const_member_call(e, c, u):
            nxt = []
            for s in cur:
                me = peel(kids(e)[0], explicit=False) if k == 'CXXMemberCallExpr' else None
                if me is not None and me.get('isArrow'):
                    for (pv, s2) in self.eval(obj, s, u):
                        if isinstance(pv, Ptr) and pv.target is not None:
                            s2.havoc(pv.target, sure=True)
                        nxt.append(s2)
                else:
                    for (l, s2) in self.lval(obj, s, u):
                        if l is not None:
                            s2.havoc(l, sure=True)
                        nxt.append(s2)
            cur = nxt
        callee_key = None
        if c and c[0] == 'fn' and c[1].get('_qn'):
            tg__ = self.G.resolve_decl(c[1])
            if len(tg__) == 1:
                callee_key = tg__[0]
        for i, a in enumerate(args):
            nxt = []
            pt = ptypes[i] if i < len(ptypes) else ''
            pw = self.param_writes(callee_key, i) if callee_key is not None else None
            for s in cur:
                for (v, s2) in self.eval(a, s, u):
                    if pw is not None and isinstance(v, Ptr) and v.target is not None:
                        for fld in pw:
                            s2.havoc(v.target + (fld,))
                        self._rematerialise(s2, v.target)
                        nxt.append(s2)
                        continue
                    mutable_ptr = isinstance(v, Ptr) and v.target is not None and not re.search(r'\bconst\b[^*]*\*\s*$', (dtype(a) or qtype(a)))
                    if isinstance(v, Ptr) and v.target is not None and not (dtype(a) or qtype(a)).replace(' ', '').startswith('const') and '*' in (dtype(a) or qtype(a)):
                        if not re.match(r'^\s*const\b', (dtype(a) or qtype(a))):
                            s2.havoc(v.target)
                            self._rematerialise(s2, v.target)
                    if pt.endswith('&') and not pt.startswith('const ') and ' const &' not in pt:
                        for (l, s3) in self.lval(a, s2, u):
                            if l is not None:
                                s3.havoc(l)
                    nxt.append(s2)
            cur = nxt
        return [(self.top_of(dtype(e)), s) for s in cur]

    def param_writes(self, fkey, idx):
        """Fields written through pointer/reference parameter idx of a /repo function, or
        None when the parameter escapes (passed on, stored, or the whole object written)."""
        if not hasattr(self, '_pw'):
            self._pw = {}
        key = (fkey, idx)
        if key in self._pw:
            return self._pw[key]
        from .expr import written_lvalues
        uu, ff = self.G.defs[fkey]
        ps = params_of(ff)
        if idx >= len(ps):
            return None
        pid = ps[idx]['id']
        out = set()
        ok = True
        written = []
        for x in walk(ff):
            if x.get('kind') in ('BinaryOperator', 'CompoundAssignOperator', 'UnaryOperator', 'CallExpr',
                                 'CXXMemberCallExpr', 'CXXOperatorCallExpr', 'CXXConstructExpr'):
                written += [id(lv) for lv in written_lvalues(x)]
        for x in walk(ff):
            if x.get('kind') == 'DeclRefExpr' and (x.get('referencedDecl') or {}).get('id') == pid:
                # climb: p->a.b ... ; classify the use
                node = x
                fld = None
                par = node.get('_p')
                while par is not None and par.get('kind') in ('ImplicitCastExpr', 'ParenExpr'):
                    node, par = par, par.get('_p')
                if par is not None and par.get('kind') == 'MemberExpr':
                    fld = par.get('name')
                    top = par
                    while top.get('_p') is not None and top['_p'].get('kind') in ('MemberExpr', 'ImplicitCastExpr', 'ParenExpr'):
                        top = top['_p']
                    chain = [y for y in walk(top)]
                    if any(id(y) in written for y in [top] + [a for a in chain if a.get('kind') == 'MemberExpr']):
                        out.add(fld)
                    elif top.get('_p') is not None and top['_p'].get('kind') == 'UnaryOperator' and top['_p'].get('opcode') == '&':
                        out.add(fld)        # address of a field taken: treat as written
                    continue
                if par is not None and par.get('kind') == 'UnaryOperator' and par.get('opcode') == '*':
                    ok = False          # *p = ... or *p passed on: whole object
                    continue
                if par is not None and par.get('kind') in ('CallExpr', 'CXXMemberCallExpr', 'CXXConstructExpr', 'CXXOperatorCallExpr'):
                    ok = False
                    continue
                if par is not None and par.get('kind') == 'BinaryOperator' and par.get('opcode') in ('==', '!='):
                    continue
                ok = False
        self._pw[key] = out if ok else None
        return self._pw[key]

    def this_writes(self, fkey, _seen=None):
        """Names of the data members of *this that fkey may write, transitively through
        calls on this (EFFECT summary used when a method is not inlined)."""
        if not hasattr(self, '_tw'):
            self._tw = {}
        if fkey in self._tw:
            return self._tw[fkey]
        _seen = _seen or set()
        if fkey in _seen:
            return set()
        _seen = _seen | {fkey}
        from .expr import written_lvalues
        uu, ff = self.G.defs[fkey]
        out = set()
        for x in walk(ff):
            if x.get('kind') in ('BinaryOperator', 'CompoundAssignOperator', 'UnaryOperator', 'CallExpr',
                                 'CXXMemberCallExpr', 'CXXOperatorCallExpr', 'CXXConstructExpr'):
                for lv in written_lvalues(x):
                    y = peel(lv)
                    # innermost member of this
                    chain = []
                    while y is not None and y.get('kind') in ('MemberExpr', 'ArraySubscriptExpr', 'CXXOperatorCallExpr', 'UnaryOperator'):
                        if y.get('kind') == 'MemberExpr':
                            chain.append(y)
                        ks_ = kids(y)
                        if y.get('kind') == 'CXXOperatorCallExpr':
                            a_ = call_args(y)
                            y = peel(a_[0]) if a_ else None
                        else:
                            y = peel(ks_[0]) if ks_ else None
                    if chain and (y is None or y.get('kind') == 'CXXThisExpr'):
                        out.add(chain[-1].get('name'))
        for (kind, t, site) in self.G.edges.get(fkey, ()):
            if kind in ('direct', 'virtual') and t in self.G.defs:
                cu, cf = self.G.defs[t]
                if cf.get('kind') == 'CXXMethodDecl' and '::'.join(t[0].split('::')[:-1]) == '::'.join(fkey[0].split('::')[:-1]):
                    out |= self.this_writes(t, _seen)
        self._tw[fkey] = out
        return out

    def _const_member_call(self, e, c, u):
        from .expr import _member_fn_type, _is_const_method
        if e.get('kind') == 'CXXMemberCallExpr':
            me = peel(kids(e)[0], explicit=False)
            return _is_const_method(_member_fn_type(e, me))
        if c and c[0] == 'fn':
            return _is_const_method(qtype(c[1]))
        return False

    def m_c_str(self, e, c, args, st, u):
        return [(Ptr('NN', ('chars', id(e)), I(0)), st)]

    @staticmethod
    def _std_array(x):
        """(element type, extent) when x has type std::array<T, N>."""
        if x is None:
            return None
        m = re.search(r'\bstd::array<(.+),\s*(\d+)[uUlL]*>', (dtype(x) or '') + ' ' + (qtype(x) or ''))
        return (m.group(1), int(m.group(2))) if m else None

    def m_data(self, e, c, args, st, u):
        if self._std_array(c[2]):
            return [(Ptr('NN', l, I(0)) if l is not None else Ptr('NN', None, None), s) for (l, s) in self.lval(c[2], st, u)]
        return self.m_c_str(e, c, args, st, u)

    def m_begin(self, e, c, args, st, u):
        if self._std_array(c[2]):
            return self.m_data(e, c, args, st, u)
        return None

    def m_end(self, e, c, args, st, u):
        a = self._std_array(c[2])
        if a:
            return [(Ptr('NN', l, I(a[1])) if l is not None else Ptr('NN', None, None), s) for (l, s) in self.lval(c[2], st, u)]
        return None

    def m_size(self, e, c, args, st, u):
        a = self._std_array(c[2])
        if a:
            return [(I(a[1]), st)]
        return None

    m_max_size = m_size

    def call_function(self, fkey, args, st, u, site, this_loc=None):
        """Abstract inlining.  Returns [(value, state)] or None when not analysable."""
        if fkey[0] in self.assume_returns:
            cur_ = [st]
            for a in args:
                cur_ = [s2 for s_ in cur_ for (_, s2) in self.eval(a, s_, u)]
            av = self.assume_returns[fkey[0]]
            if self.pure_memo and not args and this_loc is not None and this_loc[0] != 'unk':
                # an accessor of an object nobody writes: every call yields the same value, which tests refine
                pl = ('pure', fkey[0]) + tuple(this_loc)
                return [(s_.mem.get(pl, av), s_) for s_ in cur_]
            return [(av, s_) for s_ in cur_]
        if fkey not in self.G.defs or not self.inline(fkey):
            if fkey in self.G.defs and getattr(self.obs, 'wants_uninlined', False):
                # let the observer see the argument values of a call that is not followed
                cur_ = [(st.copy(), [])]
                for a in args:
                    cur_ = [(s2, vs + [('val', v)]) for (s_, vs) in cur_ for (v, s2) in self.eval(a, s_, u)]
                for (s_, vs) in cur_:
                    self.obs.call(self, site, fkey, vs, s_)
            return None
        cu, cf = self.G.defs[fkey]
        if body_of(cf) is None:
            return None
        if self.depth >= self.max_depth or fkey in self.stack:
            return None
        self.stats['calls'] += 1
        params = params_of(cf)
        # evaluate arguments left to right, binding parameters
        cur = [(st, [])]
        for a in args:
            nxt = []
            for (s, vals) in cur:
                i = len(vals)
                p = params[i] if i < len(params) else None
                pt = qtype(p).rstrip() if p is not None else ''
                if p is not None and (pt.endswith('&') or pt.endswith('&&')):
                    for (l, s2) in self.lval(a, s, u):
                        nxt.append((s2, vals + [('ref', l)]))
                else:
                    for (v, s2) in self.eval(a, s, u):
                        nxt.append((s2, vals + [('val', v)]))
            cur = nxt
        # value partitioning: a small pure function called with a small-range integer
        # argument is evaluated once per value (keeps table lookups correlated with tests)
        if self._is_small_pure(cf):
            split = []
            for (s, vals) in cur:
                idx = [i for i, (kd, v) in enumerate(vals) if kd == 'val' and isinstance(v, Int) and
                       v.lo not in (INF, -INF) and v.hi not in (INF, -INF) and 1 < v.hi - v.lo + 1 <= 16]
                if len(idx) == 1:
                    i = idx[0]
                    for c in range(vals[i][1].lo, vals[i][1].hi + 1):
                        split.append((s.copy(), vals[:i] + [('val', I(c))] + vals[i + 1:]))
                else:
                    split.append((s, vals))
            cur = split
        outs = []
        for (s, vals) in cur:
            self.obs.call(self, site, fkey, vals, s)
            saved_this = s.refs.get('this')
            saved_refs = dict(s.refs)
            # clear callee locals from earlier activations
            ids = self._local_ids(cf)
            for k in [k for k in s.mem if k[0] in ids]:
                del s.mem[k]
            for p, (kind, v) in zip(params, vals):
                if kind == 'ref':
                    if v is not None:
                        s.refs[p['id']] = v
                    else:
                        s.refs.pop(p['id'], None)
                        s.mem[(p['id'],)] = TOP
                else:
                    s.refs.pop(p['id'], None)
                    self.assign((p['id'],), v, s, dtype(p), site, cu)
            for p in params[len(vals):]:
                ks = kids(p)
                if ks:
                    for (v, s_) in self.eval(ks[-1], s, cu)[:1]:
                        self.assign((p['id'],), v, s, dtype(p), site, cu)
            if this_loc is not None:
                s.refs['this'] = this_loc
            res = self.analyse(fkey, s, site=site)
            if res is None:
                return None
            for (v, s2) in res:
                # restore caller's reference bindings; callee locals die here
                s2.refs = dict(saved_refs)
                for k_ in [k_ for k_ in s2.mem if k_[0] in ids or (k_[0] == 'iter' and k_[1] in self._loop_ids(cf))]:
                    del s2.mem[k_]
                if s2.rel:
                    s2.rel = {k_: v_ for k_, v_ in s2.rel.items()
                              if not (isinstance(k_[0], tuple) and k_[0] and k_[0][0] in ids) and
                              not (len(k_) > 1 and isinstance(k_[1], tuple) and k_[1] and k_[1][0] in ids)}
                if isinstance(v, StructV):
                    tmp = ('tmp', id(site), self.depth)
                    s2.copy_struct(v.loc, tmp)
                    v = StructV(tmp)
                if v is None:
                    v = TOP
                self.obs.returned(self, site, fkey, v, s2)
                outs.append((v, s2))
        return self._merge_results(outs)

    def _is_small_pure(self, f):
        if '_small' not in f:
            b = body_of(f)
            stmts = [c for c in kids(b)] if b is not None else []
            ok = bool(stmts) and stmts[-1].get('kind') == 'ReturnStmt' and \
                all(c.get('kind') == 'DeclStmt' for c in stmts[:-1]) and len(stmts) <= 4
            if ok:
                for x in walk(b):
                    if x.get('kind') in ('CompoundAssignOperator',) or \
                            (x.get('kind') == 'BinaryOperator' and x.get('opcode') == '=') or \
                            (x.get('kind') == 'UnaryOperator' and x.get('opcode') in ('++', '--')):
                        ok = False
            f['_small'] = ok
        return f['_small']

    def _unrolled(self, f, loop_ast):
        return self.unroll(f) or (self.auto_unroll and self._small_counted(loop_ast))

    def _unroll_cap(self, f, loop_ast):
        return self.unroll_cap if self.unroll(f) else 10

    def _small_counted(self, loop):
        """A loop whose condition bounds an integer local by a small literal (i < 3): a handful of iterations, kept apart."""
        if loop is None:
            return False
        if '_smallcnt' not in loop:
            ok = False
            inner = loop.get('inner') or []
            cond = None
            if loop.get('kind') == 'ForStmt' and len(inner) == 5:
                cond = inner[2]
            elif loop.get('kind') == 'WhileStmt' and len(inner) >= 2:
                cond = inner[-2]
            if cond and cond.get('kind'):
                fo = self.folder(loop['_u'])
                for y in walk(cond):
                    if y.get('kind') == 'BinaryOperator' and y.get('opcode') in ('<', '<=', '!=', '>', '>='):
                        a, b = kids(y)
                        for (v_, c_) in ((a, b), (b, a)):
                            cv = fo.fold(c_)
                            pv = peel(v_)
                            if cv is not None and abs(cv) <= 8 and pv is not None and pv.get('kind') == 'DeclRefExpr' and \
                                    (pv.get('referencedDecl') or {}).get('kind') == 'VarDecl' and int_type(dtype(pv) or ''):
                                ok = True
            loop['_smallcnt'] = ok
        return loop['_smallcnt']

    def _loop_nodes(self, g, f):
        """{id(loop ast): ids of the CFG nodes inside that loop (natural loop of its head)}."""
        key = '_loopnodes'
        if key not in f:
            out = {}
            byid = {n_.id: n_ for n_ in g.live}
            preds = {}
            for n_ in g.live:
                for (m_, _) in n_.succs:
                    preds.setdefault(m_.id, []).append(n_.id)
            for h in g.live:
                if h.kind != 'loop' or h.ast is None:
                    continue
                fwd = set()
                stack = [m_.id for (m_, _) in h.succs]
                while stack:
                    i_ = stack.pop()
                    if i_ in fwd or i_ == h.id:
                        continue
                    fwd.add(i_)
                    stack.extend(m_.id for (m_, _) in byid[i_].succs if i_ in byid)
                bwd = set()
                stack = list(preds.get(h.id, []))
                while stack:
                    i_ = stack.pop()
                    if i_ in bwd or i_ == h.id:
                        continue
                    bwd.add(i_)
                    stack.extend(preds.get(i_, []))
                out[id(h.ast)] = (fwd & bwd) | {h.id}
            f[key] = out
        return f[key]

    def _loop_ids(self, f):
        if '_loopids' not in f:
            f['_loopids'] = set(id(x) for x in walk(f) if x.get('kind') in ('ForStmt', 'WhileStmt', 'DoStmt', 'CXXForRangeStmt'))
        return f['_loopids']

    def _local_ids(self, f):
        if '_locals' not in f:
            f['_locals'] = set(x['id'] for x in walk(f) if x.get('kind') in ('VarDecl', 'ParmVarDecl'))
        return f['_locals']

    # ------------------------------------------------------------------ extern models
    def x_strchr(self, e, args, st, u):
        out = []
        for (pv, s) in self.eval(args[0], st, u):
            for (cv, s2) in self.eval(args[1], s, u):
                n = None
                if isinstance(pv, Ptr) and pv.target is not None:
                    ext = self._array_extent(pv.target, u)
                    n = ext - 1 if ext else None
                if n is not None and isinstance(pv.off, Int) and pv.off.const() == 0:
                    # result is null, or points at one of the n characters or (for c == 0) the terminator
                    hi = n if not (isinstance(cv, Int) and (cv.lo > 0 or cv.hi < 0)) else n - 1
                    out.append((Ptr('M', pv.target, Int(0, hi)), s2))
                else:
                    out.append((Ptr('M', None, None), s2))
        return out

    def _x_int_args(self, e, args, st, u):
        cur = [(st, [])]
        for a in args:
            cur = [(s2, vs + [v]) for (s_, vs) in cur for (v, s2) in self.eval(a, s_, u)]
        return cur

    def x_abs(self, e, args, st, u):
        """std::abs / abs / labs / llabs on integers: |x| (the minimum of the type has no absolute value: reported as an
        overflow of the call and the result taken as any value of the type)."""
        if len(args) != 1 or not int_type(dtype(e)):
            return self._unknown_call(e, args, st, u, callee(e))
        out = []
        tr = type_range(int_type(dtype(e)))
        for (s, (v,)) in self._x_int_args(e, args, st, u):
            if not isinstance(v, Int):
                out.append((Int(0, tr[1]), s))
                continue
            if v.lo < -tr[1]:
                self.obs.overflow(self, e, Int(-v.hi if v.hi < 0 else 0, -v.lo), int_type(dtype(e)), s)
                lo_ = -tr[1]
            else:
                lo_ = v.lo
            cands = [abs(lo_), abs(v.hi)]
            lo = 0 if lo_ <= 0 <= v.hi else min(cands)
            out.append((Int(lo, max(cands)), s))
        return out

    x_labs = x_abs
    x_llabs = x_abs

    def _x_minmax(self, e, args, st, u, which):
        if not args and 'numeric_limits' in ((callee(e)[1].get('_qn') or '') + (qtype(kids(e)[0]) if kids(e) else '')) and int_type(dtype(e)):
            tr = type_range(int_type(dtype(e)))
            return [(I(tr[0] if which == 'min' else tr[1]), st)]
        if len(args) != 2:
            return self._unknown_call(e, args, st, u, callee(e))
        out = []
        for (s, (a, b)) in self._x_int_args(e, args, st, u):
            if isinstance(a, Int) and isinstance(b, Int):
                f_ = min if which == 'min' else max
                out.append((Int(f_(a.lo, b.lo), f_(a.hi, b.hi)), s))
            elif isinstance(a, Ptr) and isinstance(b, Ptr) and a.target is not None and a.target == b.target and \
                    a.off is not None and b.off is not None:
                f_ = min if which == 'min' else max
                out.append((Ptr(a.null if a.null == b.null else 'M', a.target, Int(f_(a.off.lo, b.off.lo), f_(a.off.hi, b.off.hi))), s))
            else:
                out.append((vjoin(a, b), s))
        return out

    def x_min(self, e, args, st, u):
        return self._x_minmax(e, args, st, u, 'min')

    def x_max(self, e, args, st, u):
        return self._x_minmax(e, args, st, u, 'max')

    def x_lowest(self, e, args, st, u):
        return self._x_minmax(e, args, st, u, 'min')

    def x_clamp(self, e, args, st, u):
        if len(args) != 3:
            return self._unknown_call(e, args, st, u, callee(e))
        out = []
        for (s, (v, lo, hi)) in self._x_int_args(e, args, st, u):
            if isinstance(v, Int) and isinstance(lo, Int) and isinstance(hi, Int):
                out.append((Int(min(max(v.lo, lo.lo), hi.lo), min(max(v.hi, lo.hi), hi.hi)), s))
            else:
                out.append((TOP, s))
        return out

    def x_copy_n(self, e, args, st, u):
        """std::copy_n(first, n, out): writes out[0..n) and returns out + n."""
        out = []
        if len(args) != 3:
            return self._unknown_call(e, args, st, u, callee(e))
        for (_, s0) in self.eval(args[0], st, u):
            for (nv, s1) in self.eval(args[1], s0, u):
                for (ov, s2) in self.eval(args[2], s1, u):
                    if isinstance(ov, Ptr) and ov.target is not None and ov.off is not None and isinstance(nv, Int) and \
                            nv.lo not in (INF, -INF) and nv.hi not in (INF, -INF) and nv.lo >= 0:
                        if nv.hi >= 1:
                            w = Ptr(ov.null, ov.target, Int(ov.off.lo, ov.off.hi + nv.hi - 1))
                            self._check_access(e, w, s2, u, True)
                        out.append((Ptr(ov.null, ov.target, Int(ov.off.lo + nv.lo, ov.off.hi + nv.hi)), s2))
                    else:
                        if isinstance(ov, Ptr) and ov.target is not None:
                            self.obs.store(self, e, Ptr(ov.null, ov.target, None), self._array_extent(ov.target, u), s2)
                        out.append((Ptr('M', None, None), s2))
        return out

    def x_copy(self, e, args, st, u):
        """std::copy(first, last, out) over pointers into one array: writes out[0..last-first) and returns out + (last-first)."""
        if len(args) != 3:
            return self._unknown_call(e, args, st, u, callee(e))
        out = []
        for (fv, s0) in self.eval(args[0], st, u):
            for (lv, s1) in self.eval(args[1], s0, u):
                for (ov, s2) in self.eval(args[2], s1, u):
                    n = None
                    if isinstance(fv, Ptr) and isinstance(lv, Ptr) and fv.target is not None and fv.target == lv.target and \
                            fv.off is not None and lv.off is not None:
                        n = self.sub(lv.off, fv.off)
                    if isinstance(ov, Ptr) and ov.target is not None and ov.off is not None and isinstance(n, Int) and \
                            n.lo not in (INF, -INF) and n.hi not in (INF, -INF) and n.lo >= 0:
                        if n.hi >= 1:
                            self._check_access(e, Ptr(ov.null, ov.target, Int(ov.off.lo, ov.off.hi + n.hi - 1)), s2, u, True)
                        out.append((Ptr(ov.null, ov.target, Int(ov.off.lo + n.lo, ov.off.hi + n.hi)), s2))
                    else:
                        if isinstance(ov, Ptr) and ov.target is not None:
                            self.obs.store(self, e, Ptr(ov.null, ov.target, None), self._array_extent(ov.target, u), s2)
                        out.append((Ptr('M', None, None), s2))
        return out

    # ------------------------------------------------------------------ refinement
    def refine_value(self, loc, v, st, truth, t):
        """Constrain the value at loc to be truthy / falsy."""
        if isinstance(v, Ptr):
            if truth:
                if v.null == 'N':
                    return []
                st.mem[loc] = Ptr('NN', v.target, v.off)
            else:
                if v.null == 'NN':
                    return []
                st.mem[loc] = NULLP
            return [st]
        if isinstance(v, Int):
            if truth:
                if v.lo == 0 and v.hi == 0:
                    return []
                if v.lo == 0:
                    st.mem[loc] = Int(1, v.hi)
                elif v.hi == 0:
                    st.mem[loc] = Int(v.lo, -1)
            else:
                if v.lo > 0 or v.hi < 0:
                    return []
                st.mem[loc] = I(0)
            return [st]
        return [st]

    def refine(self, e, st, truth, u):
        """States in which condition e evaluates to truth (side effects applied)."""
        x = e
        while x.get('kind') in ('ParenExpr', 'ExprWithCleanups', 'MaterializeTemporaryExpr', 'ConstantExpr', 'FullExpr'):
            x = kids(x)[0]
        k = x.get('kind')
        if k == 'ImplicitCastExpr' and x.get('castKind') in ('IntegralToBoolean', 'PointerToBoolean', 'NoOp', 'IntegralCast',
                                                              'LValueToRValue', 'UserDefinedConversion'):
            if x.get('castKind') in ('IntegralToBoolean', 'PointerToBoolean', 'NoOp') or \
                    (x.get('castKind') == 'IntegralCast' and (int_type(dtype(kids(x)[0])) or (0,))[0] == 1):
                return self.refine(kids(x)[0], st, truth, u)
        if k == 'UnaryOperator' and x.get('opcode') == '!':
            return self.refine(kids(x)[0], st, not truth, u)
        if k == 'BinaryOperator' and x.get('opcode') == '&&':
            a, b = kids(x)
            if truth:
                out = []
                for s in self.refine(a, st, True, u):
                    out += self.refine(b, s, True, u)
                return out
            out = self.refine(a, st.copy(), False, u)
            for s in self.refine(a, st, True, u):
                out += self.refine(b, s, False, u)
            return out
        if k == 'BinaryOperator' and x.get('opcode') == '||':
            a, b = kids(x)
            if not truth:
                out = []
                for s in self.refine(a, st, False, u):
                    out += self.refine(b, s, False, u)
                return out
            out = self.refine(a, st.copy(), True, u)
            for s in self.refine(a, st, False, u):
                out += self.refine(b, s, True, u)
            return out
        if k == 'BinaryOperator' and x.get('opcode') in ('<', '>', '<=', '>=', '==', '!='):
            return self._refine_cmp(x, x.get('opcode'), kids(x)[0], kids(x)[1], st, truth, u)
        if k == 'CXXBoolLiteralExpr':
            return [st] if bool(x.get('value')) == truth else []
        if k == 'CallExpr':
            r_ = self._refine_predicate_call(x, st, truth, u)
            if r_ is not None:
                return r_
        # generic: evaluate and test
        out = []
        simple = peel(x, explicit=False)
        for (v, s) in self.eval(x, st, u):
            loc = None
            if simple.get('kind') in ('DeclRefExpr', 'MemberExpr'):
                loc = self._simple_loc(simple, s, u)
            elif simple.get('kind') == 'BinaryOperator' and simple.get('opcode') == '=':
                loc = self._simple_loc(kids(simple)[0], s, u)
            if loc is not None:
                out += self.refine_value(loc, v, s, truth, dtype(x))
            else:
                if isinstance(v, Int):
                    if truth and v.lo == 0 and v.hi == 0:
                        continue
                    if not truth and (v.lo > 0 or v.hi < 0):
                        continue
                if isinstance(v, Ptr):
                    if truth and v.null == 'N':
                        continue
                    if not truth and v.null == 'NN':
                        continue
                out.append(s)
        return out

    def _refine_cmp(self, e, op, a, b, st, truth, u):
        NEG = {'<': '>=', '<=': '>', '>': '<=', '>=': '<', '==': '!=', '!=': '=='}
        if not truth:
            op = NEG[op]
        out = []
        for (va, s) in self.eval(a, st, u):
            for (vb, s2) in self.eval(b, s, u):
                la = self._cmp_loc(a, s2, u)
                lb = self._cmp_loc(b, s2, u)
                if self.value_numbers and self._vn_refine(e, op, a, b, la, lb, va, vb, s2, u) is False:
                    continue        # refuted by an equality between pointers / a known byte
                r = self._constrain(op, va, vb)
                if r is None:
                    continue
                na, nb = r
                if la is not None and na is not va:
                    s2.mem[la] = na
                if lb is not None and nb is not vb:
                    s2.mem[lb] = nb
                for (l_, new_) in ((la, na), (lb, nb)):
                    self._refine_alias(l_, new_, s2, u)
                # loc + c  compared: the refinement of the sum refines loc
                for (side, old_, new_, l_) in ((a, va, na, la), (b, vb, nb, lb)):
                    if l_ is None and new_ is not old_ and isinstance(new_, Int):
                        lin = self._cmp_lin(side, s2, u)
                        if lin is not None:
                            loc_, c_ = lin
                            cur_ = s2.mem.get(loc_)
                            if cur_ is None and loc_[0] == 'pure':
                                cur_ = self.assume_returns.get(loc_[1])
                            if isinstance(cur_, Int):
                                lo = max(cur_.lo, new_.lo - c_) if new_.lo != -INF else cur_.lo
                                hi = min(cur_.hi, new_.hi - c_) if new_.hi != INF else cur_.hi
                                if lo <= hi:
                                    s2.mem[loc_] = Int(lo, hi)
                                    self._refine_alias(loc_, s2.mem[loc_], s2, u)
                # a character of constant data compared: remember what the outcome says about that character
                for (side, old_, new_, l_) in ((a, va, na, la), (b, vb, nb, lb)):
                    if l_ is None and new_ is not old_ and isinstance(new_, Int):
                        cell_ = self._char_cell(side, s2, u)
                        if cell_ is not None:
                            self._cell_set(s2, cell_, new_)
                # relational side table for  a > b  => a - b >= 1
                if la is not None and lb is not None and isinstance(va, Int) and isinstance(vb, Int):
                    if op == '>':
                        s2.rel[(la, lb)] = max(s2.rel.get((la, lb), -INF), 1)
                    elif op == '>=':
                        s2.rel[(la, lb)] = max(s2.rel.get((la, lb), -INF), 0)
                    elif op == '<':
                        s2.rel[(lb, la)] = max(s2.rel.get((lb, la), -INF), 1)
                    elif op == '<=':
                        s2.rel[(lb, la)] = max(s2.rel.get((lb, la), -INF), 0)
                out.append(s2)
        return out

    # -- cells of constant character data reached through a pointer with a known offset: what tests have established
    #    about the character is kept in St.rel (intersection at joins, the weaker bound wins):
    #    ('cl', target, c) -> lo   and   ('ch', target, c) -> -hi
    def _cell_get(self, st, tg, c):
        lo, nh = st.rel.get(('cl', tg, c)), st.rel.get(('ch', tg, c))
        if lo is None and nh is None:
            return None
        return Int(lo if lo is not None else -INF, -nh if nh is not None else INF)

    def _cell_set(self, st, cell, v):
        (tg, c) = cell
        if v.lo != -INF:
            st.rel[('cl', tg, c)] = max(st.rel.get(('cl', tg, c), -INF), v.lo)
        if v.hi != INF:
            st.rel[('ch', tg, c)] = max(st.rel.get(('ch', tg, c), -INF), -v.hi)

    def _char_cell(self, e, s, u):
        """(target, offset) when e reads one character of constant data through a pointer whose target and offset are known."""
        x = peel(e)
        if x is None or (dtype(x) or '').strip() != 'const char':
            return None
        if any(y.get('kind') in ('CallExpr', 'CXXMemberCallExpr', 'CompoundAssignOperator') or
               (y.get('kind') == 'UnaryOperator' and y.get('opcode') in ('++', '--')) or
               (y.get('kind') == 'BinaryOperator' and y.get('opcode') == '=') for y in walk(x)):
            return None
        pv = None
        if x.get('kind') == 'ArraySubscriptExpr':
            r = [(a_, b_) for (a_, s1) in self.eval(kids(x)[0], s.copy(), u) for (b_, _s2) in self.eval(kids(x)[1], s1, u)]
            if len(r) == 1 and isinstance(r[0][0], Ptr) and isinstance(r[0][1], Int) and r[0][0].off is not None:
                pv = Ptr(r[0][0].null, r[0][0].target, self.add(r[0][0].off, r[0][1]))
        elif x.get('kind') == 'UnaryOperator' and x.get('opcode') == '*':
            r = self.eval(kids(x)[0], s.copy(), u)
            if len(r) == 1 and isinstance(r[0][0], Ptr):
                pv = r[0][0]
        if pv is None or pv.target is None or pv.off is None or pv.off.const() is None or pv.target[0] == 'str':
            return None
        return (pv.target, pv.off.const())

    def _refine_predicate_call(self, x, st, truth, u):
        """Condition `Pred(arg..)` where Pred is a library function whose body is `return <test of its value parameters>;`:
        the states in which the test, read with the arguments in place of the parameters, has the given outcome.  What the
        test establishes about a parameter is carried back to the character cell the argument read.  None: not such a call."""
        c = callee(x)
        if not c or c[0] != 'fn' or not c[1].get('_qn'):
            return None
        tg = self.G.resolve_decl(c[1])
        if len(tg) != 1 or tg[0] not in self.G.defs:
            return None
        uu, ff = self.G.defs[tg[0]]
        body = body_of(ff)
        sts = [y for y in kids(body)] if body is not None else []
        if len(sts) != 1 or sts[0].get('kind') != 'ReturnStmt' or not kids(sts[0]):
            return None
        ret = kids(sts[0])[0]
        ps = params_of(ff)
        args = call_args(x)
        if len(ps) != len(args) or not all(int_type((dtype(p_) or qtype(p_) or '').replace('const ', '')) for p_ in ps):
            return None
        pid = set(p_['id'] for p_ in ps)
        for y in walk(ret):
            k_ = y.get('kind')
            if k_ in ('CallExpr', 'CXXMemberCallExpr', 'CXXOperatorCallExpr', 'CompoundAssignOperator', 'LambdaExpr') or \
                    (k_ == 'UnaryOperator' and y.get('opcode') in ('++', '--', '&')) or (k_ == 'BinaryOperator' and y.get('opcode') == '='):
                return None
            if k_ == 'DeclRefExpr' and (y.get('referencedDecl') or {}).get('kind') in ('VarDecl', 'ParmVarDecl') and \
                    (y.get('referencedDecl') or {}).get('id') not in pid and self.folder(uu).fold(y) is None:
                return None
        cur = [(st, [])]
        for a in args:
            cur = [(s2, vs + [(v, self._char_cell(a, s2, u))]) for (s_, vs) in cur for (v, s2) in self.eval(a, s_, u)]
        out = []
        for (s_, vs) in cur:
            for p_, (v, cell) in zip(ps, vs):
                if not isinstance(v, Int):
                    v = self.top_of(dtype(p_) or qtype(p_))
                s_.mem[(p_['id'],)] = v
            for s2 in self.refine(ret, s_, truth, uu):
                for p_, (v, cell) in zip(ps, vs):
                    nv = s2.mem.pop((p_['id'],), None)
                    if cell is not None and isinstance(nv, Int):
                        self._cell_set(s2, cell, nv)
                out.append(s2)
        return out

    def _cmp_loc(self, e, s, u):
        x = peel(e)
        if x is None:
            return None
        if x.get('kind') == 'BinaryOperator' and x.get('opcode') == '=':
            x = peel(kids(x)[0])
        if x.get('kind') == 'UnaryOperator' and x.get('opcode') in ('++', '--') and not x.get('isPostfix'):
            x = peel(kids(x)[0])
        if x.get('kind') in ('DeclRefExpr', 'MemberExpr'):
            r = self.lval(x, s.copy(), u)
            if len(r) == 1 and r[0][0] is not None and r[0][0][0] != 'tmp':
                # only locations that hold scalars
                return r[0][0]
        if self.pure_memo and x.get('kind') == 'CXXMemberCallExpr' and not call_args(x):
            c = callee(x)
            if c and c[0] == 'method' and c[2] is not None:
                d = u.by_id.get(c[3])
                tg = self.G.resolve_decl(d) if d is not None else []
                if len(tg) == 1 and tg[0][0] in self.assume_returns:
                    r = self.lval(c[2], s.copy(), u)
                    if len(r) == 1 and r[0][0] is not None and r[0][0][0] not in ('tmp', 'unk'):
                        return ('pure', tg[0][0]) + tuple(r[0][0])
        return None

    # -- value numbers: which pointer locals hold one and the same value, which values differ, and what byte a
    #    value points at.  Kept in St.rel (joined by intersection): ('vn+', loc) -> n and ('vn-', loc) -> -n give loc
    #    the number 'v<n>' (valid only while both agree, so a join of different numbers drops it);
    #    ('ne', 'va', 'vb') -> 1;  ('dv+', 'v') -> c and ('dv-', 'v') -> -c : the byte at that pointer value is c.
    def _vn(self, st, loc):
        if loc is None:
            return None
        a_ = st.rel.get(('vn+', loc))
        b_ = st.rel.get(('vn-', loc))
        return 'v%d' % a_ if a_ is not None and b_ == -a_ else None

    def _vn_new(self, st, loc, site):
        n_ = (id(site) * 31 + hash(loc)) % (10 ** 12) + 1
        i_ = 'v%d' % n_
        # the number gets a new meaning here: drop what was known under it
        for k_ in [k_ for k_ in st.rel if (k_[0] in ('vn+', 'vn-') and abs(st.rel[k_]) == n_) or
                   (k_[0] == 'ne' and i_ in k_[1:]) or (k_[0] in ('dv+', 'dv-') and k_[1] == i_)]:
            del st.rel[k_]
        st.rel[('vn+', loc)] = n_
        st.rel[('vn-', loc)] = -n_
        return i_

    def _vn_set(self, st, loc, i_):
        n_ = int(i_[1:])
        st.rel[('vn+', loc)] = n_
        st.rel[('vn-', loc)] = -n_

    def _vn_copy(self, st, dst, src_expr, u, site):
        """dst = <pointer local>: both hold one value."""
        x = peel(src_expr) if src_expr is not None else None
        if x is None or x.get('kind') != 'DeclRefExpr':
            return
        r = self.lval(x, st.copy(), u)
        if len(r) != 1 or r[0][0] is None or r[0][0] == dst:
            return
        src = r[0][0]
        i_ = self._vn(st, src) or self._vn_new(st, src, site)
        self._vn_set(st, dst, i_)

    def _vn_kill_bytes(self, st):
        if st.rel:
            for k_ in [k_ for k_ in st.rel if k_[0] in ('dv+', 'dv-')]:
                del st.rel[k_]

    def _vn_deref(self, e, s, u):
        """(loc of P) when e is *P or P[0] for a pointer local P."""
        x = peel(e)
        if x is None:
            return None
        p_ = None
        if x.get('kind') == 'UnaryOperator' and x.get('opcode') == '*':
            p_ = peel(kids(x)[0])
        elif x.get('kind') == 'ArraySubscriptExpr' and self.folder(u).fold(kids(x)[1]) == 0:
            p_ = peel(kids(x)[0])
        if p_ is None or p_.get('kind') != 'DeclRefExpr':
            return None
        r = self.lval(p_, s.copy(), u)
        return r[0][0] if len(r) == 1 and r[0][0] is not None else None

    def _vn_refine(self, e, op, a, b, la, lb, va, vb, s2, u):
        if isinstance(va, Ptr) and isinstance(vb, Ptr) and la is not None and lb is not None and op in ('==', '!='):
            ia, ib = self._vn(s2, la), self._vn(s2, lb)
            if op == '==':
                if ia and ib and ('ne',) + tuple(sorted((ia, ib))) in s2.rel:
                    return False
                i_ = ia or ib or self._vn_new(s2, la, e)
                self._vn_set(s2, la, i_)
                self._vn_set(s2, lb, i_)
            else:
                if ia and ib and ia == ib:
                    return False
                ia = ia or self._vn_new(s2, la, e)
                ib = ib or self._vn_new(s2, lb, b)
                if ia != ib:
                    s2.rel[('ne',) + tuple(sorted((ia, ib)))] = 1
            return True
        for (side, other, oval) in ((a, b, vb), (b, a, va)):
            lp = self._vn_deref(side, s2, u)
            if lp is None or not isinstance(oval, Int) or oval.const() is None or op not in ('==', '!='):
                continue
            c = oval.const()
            ip = self._vn(s2, lp)
            known = None
            if ip is not None:
                k1, k2 = s2.rel.get(('dv+', ip)), s2.rel.get(('dv-', ip))
                known = k1 if k1 is not None and k2 == -k1 else None
            if known is not None and ((op == '==' and known != c) or (op == '!=' and known == c)):
                return False
            if op == '==':
                ip = ip or self._vn_new(s2, lp, side)
                s2.rel[('dv+', ip)] = c
                s2.rel[('dv-', ip)] = -c
            return True
        return True

    def _refine_alias(self, l_, new_, s2, u):
        """A const local initialised from a memoised accessor is that accessor's value."""
        if not self.pure_memo or l_ is None or len(l_) != 1 or not isinstance(new_, Int):
            return
        d_ = u.by_id.get(l_[0]) if isinstance(l_[0], str) else None
        if d_ is not None and d_.get('kind') == 'VarDecl' and kids(d_) and \
                re.search(r'\bconst\b', qtype(d_) or '') and '&' not in (qtype(d_) or '') and '*' not in (qtype(d_) or ''):
            pl_ = self._cmp_loc(kids(d_)[-1], s2, u)
            if pl_ is not None and pl_[0] == 'pure':
                s2.mem[pl_] = new_

    def _cmp_lin(self, e, s, u):
        """(loc, c) when e denotes mem[loc] + c for a constant c (no wrap: the sum is signed and its overflow is reported
        where it is evaluated)."""
        x = peel(e)
        if x is None or x.get('kind') != 'BinaryOperator' or x.get('opcode') not in ('+', '-'):
            return None
        it = int_type(dtype(x))
        if not it or not it[1]:
            return None
        a, b = kids(x)
        la, lb = self._cmp_loc(a, s, u), self._cmp_loc(b, s, u)
        fo = Folder(u)
        if la is not None:
            c = fo.fold(b)
            if c is not None:
                return (la, c if x['opcode'] == '+' else -c)
        if lb is not None and x['opcode'] == '+':
            c = fo.fold(a)
            if c is not None:
                return (lb, c)
        return None

    def _constrain(self, op, va, vb):
        """Returns (va', vb') refined by `va op vb`, or None if infeasible."""
        if isinstance(va, Ptr) and isinstance(vb, Ptr):
            if op in ('==', '!='):
                if vb.null == 'N' or va.null == 'N':
                    p, other = (va, vb) if vb.null == 'N' else (vb, va)
                    if other.null != 'N':
                        p, other = other, p
                    # p compared with null
                    if op == '==':
                        if p.null == 'NN':
                            return None
                        np_ = NULLP
                    else:
                        if p.null == 'N':
                            return None
                        np_ = Ptr('NN', p.target, p.off)
                    return (np_, vb) if p is va else (va, np_)
                if va.target is not None and va.target == vb.target and va.off is not None and vb.off is not None:
                    r = self._constrain(op, va.off, vb.off)
                    if r is None:
                        return None
                    return (Ptr(va.null, va.target, r[0]), Ptr(vb.null, vb.target, r[1]))
                return (va, vb)
            if va.target is not None and va.target == vb.target and va.off is not None and vb.off is not None:
                r = self._constrain(op, va.off, vb.off)
                if r is None:
                    return None
                return (Ptr(va.null, va.target, r[0]), Ptr(vb.null, vb.target, r[1]))
            return (va, vb)
        if not (isinstance(va, Int) and isinstance(vb, Int)):
            return (va, vb)
        if op == '<':
            na = va.meet(Int(-INF, vb.hi - 1))
            nb = vb.meet(Int(va.lo + 1, INF))
        elif op == '<=':
            na = va.meet(Int(-INF, vb.hi))
            nb = vb.meet(Int(va.lo, INF))
        elif op == '>':
            na = va.meet(Int(vb.lo + 1, INF))
            nb = vb.meet(Int(-INF, va.hi - 1))
        elif op == '>=':
            na = va.meet(Int(vb.lo, INF))
            nb = vb.meet(Int(-INF, va.hi))
        elif op == '==':
            na = nb = va.meet(vb)
        else:  # !=
            na, nb = va, vb
            if vb.const() is not None:
                if va.const() == vb.const():
                    return None
                if va.lo == vb.lo:
                    na = Int(va.lo + 1, va.hi)
                elif va.hi == vb.lo:
                    na = Int(va.lo, va.hi - 1)
            elif va.const() is not None:
                if vb.lo == va.lo:
                    nb = Int(vb.lo + 1, vb.hi)
                elif vb.hi == va.lo:
                    nb = Int(vb.lo, vb.hi - 1)
        if na is None or nb is None:
            return None
        return (na, nb)


def _same_record(argtype, t):
    a = argtype.replace('const ', '').replace('&', '').strip()
    return a == t or a.endswith('::' + t) or t.endswith('::' + a)
